INIT Init
NEXT Next
