SPECIFICATION Spec
CONSTANTS MaxVersion = 2
 MaxFaults = 0
  ClaimFirst = TRUE
 SilentRace = FALSE
INVARIANT LoadWhole
CHECK_DEADLOCK FALSE
