SPECIFICATION Spec
CONSTANTS MaxVersion = 2
 MaxFaults = 0
 SilentRace = FALSE
INVARIANT LoadWhole
CHECK_DEADLOCK FALSE
