SPECIFICATION FairSpec
CONSTANTS MaxVersion = 3
 MaxFaults = 2
 SilentRace = TRUE
PROPERTY Heals
CHECK_DEADLOCK FALSE
