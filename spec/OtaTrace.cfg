INIT Init
NEXT Next
