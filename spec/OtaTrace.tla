------------------------------- MODULE OtaTrace -------------------------------
(* TLC as the independent oracle for recorded OTA conversations (env TRACE_FILE, *)
(* ndjson): {"img": bytes, "ft","fv", "loaded": bytes from load_fw (or []),       *)
(*  "cfgs": [[ft,fv,blocks,crc], ...], "blks": [[reqft,reqfv,reqidx, ft,fv,idx,data], ...]} *)
EXTENDS Ota, Json, IOUtils, TLC, TLCExt
Recs == ndJsonDeserialize(IOEnv.TRACE_FILE)
RecOk(r) ==
  /\ (r.hasloaded => r.loaded = r.img)                                  \* Intel-HEX loads to exactly its bytes
  /\ Len(r.cfgs) >= 1
  /\ \A i \in 1..Len(r.cfgs) : ConfigOk(r.img, r.ft, r.fv, r.cfgs[i])
  /\ \A i \in 1..Len(r.cfgs) : r.cfgs[i] = r.cfgs[1]                    \* every node is told the same
  /\ \A i \in 1..Len(r.blks) :
        LET b == r.blks[i] IN BlockOk(r.img, r.cfgs[1][3], b[1], b[2], b[3], <<b[4], b[5], b[6], b[7]>>)
  \* two firmware ids loaded: a late request that names the earlier one is answered, if at all, with THAT firmware
  /\ r.hasprev => \A i \in 1..Len(r.pblks) :
        LET b == r.pblks[i] IN BlockOk(r.pimg, r.pblocks, b[1], b[2], b[3], <<b[4], b[5], b[6], b[7]>>)
Bad == {i \in 1..Len(Recs) : ~RecOk(Recs[i])}
ASSUME PrintT(<<"BADREC", Bad>>)
ASSUME PrintT(<<"COUNT", Len(Recs)>>)
VARIABLE x
Init == x = 0
Next == UNCHANGED x
=============================================================================
