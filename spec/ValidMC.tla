------------------------------ MODULE ValidMC ------------------------------
(* Model-checks the table theorems of Valid.tla and enumerates the complete  *)
(* header space as states so that TLC evaluates Accept on every header class *)
(* (vacuity control: both accepted and rejected headers must be reachable).  *)
(* Also validates the hand-labelled corpus (env CORPUS_FILE) against         *)
(* RuleOk: [[rule, descriptor, expected(0/1)], ...].                          *)
EXTENDS Valid, Json, IOUtils, TLC
Corpus == JsonDeserialize(IOEnv.CORPUS_FILE)
BadCorpus == {i \in 1..Len(Corpus) : RuleOk(Corpus[i][1], Corpus[i][2]) # (Corpus[i][3] = 1)}
ASSUME PrintT(<<"BADCORPUS", BadCorpus>>)
ASSUME GrowsWithVersion
ASSUME EveryDefinedHasRule
ASSUME EveryPresTypeHasSchema
ASSUME OnlyKnownRuleChanges

VARIABLES v, h, acc
IdCls == {-1, 0, 1, 254, 255, 256}
EmptyP == [e |-> TRUE, w |-> "", int |-> FALSE, iv |-> 0, fl |-> FALSE, c0 |-> 0, c100 |-> 0,
           cm1 |-> 0, c1 |-> 0, hex |-> TRUE, len |-> 0, gn |-> 1, gf |-> FALSE, vok |-> FALSE]
Init == /\ v \in Versions
        /\ h \in [n : IdCls, c : IdCls, cmd : -1..5, ack : -1..2, sub : -1..59]
        /\ acc = Accept(v, h, EmptyP)
Next == UNCHANGED <<v, h, acc>>
\* sanity invariants relating acceptance to the statement of the property
AcceptedInRange == acc => /\ h.n \in 0..255 /\ h.c \in 0..255 /\ h.ack \in {0,1}
                           /\ h.cmd \in 0..4 /\ h.sub \in 0..MaxSub(v, h.cmd)
Child255OnlyForPIS == acc /\ h.c = 255 => h.cmd \in {PRES, INTERNAL, STREAM}
Child255Required == acc /\ h.cmd \in {INTERNAL, STREAM} /\ ~IsIdMsg(h) => h.c = 255
=============================================================================
