---------------------------- MODULE ValidTrace ----------------------------
(* Conformance of recorded implementation verdicts with Valid.tla.          *)
(* Input (env TRACE_FILE): {"P": [payload descriptors],                     *)
(*   "R": [[verIdx, n, c, cmd, ack, sub, payloadIdx, accepted(0/1)], ...],  *)
(*   "K": [[verIdx, presType, valueType, payloadIdx, outcome(0 ok,1 invalid,2 other)], ...]} *)
EXTENDS Valid, Json, IOUtils, TLC, TLCExt
D == JsonDeserialize(IOEnv.TRACE_FILE)
P == D.P
R == D.R
K == D.K
Hdr(r) == [n |-> r[2], c |-> r[3], cmd |-> r[4], ack |-> r[5], sub |-> r[6]]
Agree(r) == (r[8] = 1) <=> Accept(VerSeq[r[1]], Hdr(r), P[r[7]])
BadR == {i \in 1..Len(R) : ~Agree(R[i])}
\* child schema: a value of type t with payload p on a child of presentation type s
SchemaExpect(k) ==
  LET v == VerSeq[k[1]] IN
  IF k[2] \notin 0..MaxPres(v) THEN 2
  ELSE IF k[3] \in SchemaTypes(v, k[2]) /\ RuleOk(SetRule(v, k[3]), P[k[4]]) THEN 0 ELSE 1
BadK == {i \in 1..Len(K) : SchemaExpect(K[i]) # K[i][5]}
ASSUME PrintT(<<"BADR", BadR>>)
ASSUME PrintT(<<"BADK", BadK>>)
ASSUME PrintT(<<"COUNT", Len(R), Len(K)>>)
VARIABLE x
Init == x = 0
Next == UNCHANGED x
=============================================================================
