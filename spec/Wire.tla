-------------------------------- MODULE Wire --------------------------------
(***************************************************************************)
(* Character-level specification of the MySensors serial line codec.       *)
(*                                                                         *)
(* A text is a sequence of SYMBOLS; each symbol stands for a class of      *)
(* characters (the conformance harness concretises a class to several      *)
(* real characters):                                                       *)
(*   "0" .. "9"           ASCII digits        "u"  a non-ASCII decimal digit of value 3 *)
(*   "-" "+" "_"           sign / underscore   "s"  the separator ';'       *)
(*   "b"  a blank (any character str.isspace accepts other than CR / LF)    *)
(*   "n"  LF     "r"  CR    "a"  any other character (letters, dots, emoji, NUL, ...) *)
(*   "g"  U+001C..U+001F: blanks for str.rstrip() but NOT for int()              *)
(***************************************************************************)
EXTENDS Integers, Sequences, SequencesExt, FiniteSets

AsciiDigits == {"0", "1", "2", "3", "4", "5", "6", "7", "8", "9"}
DigitSyms   == AsciiDigits \cup {"u"}
Symbols     == DigitSyms \cup {"-", "+", "_", "s", "b", "n", "r", "a", "c", "g"}   \* "c": a second, different "other" character

IsSpace(c) == c \in {"b", "n", "r", "g"}       \* what str.rstrip() removes
IsIntSpace(c) == c \in {"b", "n", "r"}         \* what int() tolerates around the digits
DigitVal(c) == CASE c = "0" -> 0 [] c = "1" -> 1 [] c = "2" -> 2 [] c = "3" -> 3 [] c = "4" -> 4
                 [] c = "5" -> 5 [] c = "6" -> 6 [] c = "7" -> 7 [] c = "8" -> 8 [] c = "9" -> 9
                 [] c = "u" -> 3

Fail == [ok |-> FALSE]
OkInt(v) == [ok |-> TRUE, v |-> v]

\* ---- whitespace stripping (str.rstrip / the stripping int() does) --------
RStripBy(t, Sp(_)) == IF \A i \in 1..Len(t) : Sp(t[i]) THEN <<>>
             ELSE SubSeq(t, 1, CHOOSE k \in 1..Len(t) :
                                   ~Sp(t[k]) /\ \A j \in (k+1)..Len(t) : Sp(t[j]))
LStripBy(t, Sp(_)) == IF \A i \in 1..Len(t) : Sp(t[i]) THEN <<>>
             ELSE SubSeq(t, CHOOSE k \in 1..Len(t) :
                                ~Sp(t[k]) /\ \A j \in 1..(k-1) : Sp(t[j]), Len(t))
RStrip(t) == RStripBy(t, IsSpace)
Strip(t) == LStripBy(RStripBy(t, IsIntSpace), IsIntSpace)

\* ---- split on the separator: k separators give k+1 fields ---------------
SepPos(t) == {i \in 1..Len(t) : t[i] = "s"}
Split(t) ==
  LET pos == SetToSortSeq(SepPos(t), <)
      k   == Len(pos)
      lo(i) == IF i = 1 THEN 1 ELSE pos[i-1] + 1
      hi(i) == IF i = k + 1 THEN Len(t) ELSE pos[i] - 1
  IN [i \in 1..(k+1) |-> SubSeq(t, lo(i), hi(i))]

\* ---- int(): optional blanks, optional sign, digits with single inner underscores
DigitsOf(b) == SelectSeq(b, LAMBDA c : c \in DigitSyms)
BodyOk(b) ==
  /\ Len(b) >= 1
  /\ \A i \in 1..Len(b) : b[i] \in DigitSyms \cup {"_"}
  /\ b[1] # "_" /\ b[Len(b)] # "_"
  /\ \A i \in 1..(Len(b)-1) : ~(b[i] = "_" /\ b[i+1] = "_")
RECURSIVE NatVal(_)
NatVal(ds) == IF ds = <<>> THEN 0 ELSE 10 * NatVal(SubSeq(ds, 1, Len(ds) - 1)) + DigitVal(ds[Len(ds)])
ParseInt(f) ==
  LET t == Strip(f) IN
  IF t = <<>> THEN Fail
  ELSE LET signed == t[1] \in {"-", "+"}
           body   == IF signed THEN Tail(t) ELSE t
       IN IF ~BodyOk(body) THEN Fail
          ELSE LET v == NatVal(DigitsOf(body)) IN OkInt(IF t[1] = "-" THEN -v ELSE v)

\* ---- rendering of an integer in canonical decimal ------------------------
RECURSIVE NatDigits(_)
DigitSym(d) == CASE d = 0 -> "0" [] d = 1 -> "1" [] d = 2 -> "2" [] d = 3 -> "3" [] d = 4 -> "4"
                 [] d = 5 -> "5" [] d = 6 -> "6" [] d = 7 -> "7" [] d = 8 -> "8" [] d = 9 -> "9"
NatDigits(k) == IF k < 10 THEN <<DigitSym(k)>> ELSE Append(NatDigits(k \div 10), DigitSym(k % 10))
Render(i) == IF i < 0 THEN <<"-">> \o NatDigits(-i) ELSE NatDigits(i)

\* ---- the codec -------------------------------------------------------------
\* message = [ok |-> TRUE, h |-> <<node, child, type, ack, sub>>, p |-> payload text]
Decode(line) ==
  LET fs == Split(RStrip(line)) IN
  IF Len(fs) # 6 THEN Fail
  ELSE IF \E i \in 1..5 : ~ParseInt(fs[i]).ok THEN Fail
  ELSE [ok |-> TRUE, h |-> [i \in 1..5 |-> ParseInt(fs[i]).v], p |-> fs[6]]

Encode(m) ==
  Render(m.h[1]) \o <<"s">> \o Render(m.h[2]) \o <<"s">> \o Render(m.h[3]) \o <<"s">> \o
  Render(m.h[4]) \o <<"s">> \o Render(m.h[5]) \o <<"s">> \o m.p \o <<"n">>

\* copy = decode(encode(m)), then replace the fields in repl (a partial function
\* from 1..6 to new values; 6 is the payload)
Copy(m, repl) ==
  LET d == Decode(Encode(m)) IN
  IF ~d.ok THEN Fail
  ELSE [ok |-> TRUE, h |-> [i \in 1..5 |-> IF i \in DOMAIN repl THEN repl[i] ELSE d.h[i]],
        p |-> IF 6 \in DOMAIN repl THEN repl[6] ELSE d.p]

\* ---- what the property talks about ------------------------------------------
\* payloads the wire format can carry: no ';', no line break, no trailing blanks
\* (a CR that is not trailing survives the round trip and is allowed here; a trailing CR is a trailing blank)
Carriable(p) == /\ \A i \in 1..Len(p) : p[i] \notin {"s", "n"}
                /\ (p # <<>> => ~IsSpace(p[Len(p)]))

\* canonical line: five canonical integers, the payload, exactly one trailing LF
Canonical(line, m) ==
  /\ line = Encode(m)
  /\ Len(line) >= 1 /\ line[Len(line)] = "n"
  /\ Cardinality(SepPos(SubSeq(line, 1, Len(line) - Len(m.p) - 1))) = 5
=============================================================================
