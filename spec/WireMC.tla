------------------------------- MODULE WireMC -------------------------------
(* Bounded enumeration of the codec's case analysis; TLC checks the codec laws *)
(* of property C02 on the SPECIFICATION's operators.  The implementation is     *)
(* judged by WireTrace.tla on the same operators.                               *)
EXTENDS Wire, TLC
CONSTANT Tier
VARIABLES kind, line, msg, repl
vars == <<kind, line, msg, repl>>

HFq == { <<"1">>, <<"-","1">>, <<"b","1">>, <<"1","_","0">>, <<"u">>, <<>>, <<"1","a">>, <<"_","1">>,
         <<"1","b","1">>, <<"2","5","6">> }
HF == IF Tier = "quick" THEN HFq ELSE
      { <<"1">>, <<"0">>, <<"2","5">>, <<"-","1">>, <<"+","5">>, <<"b","1">>, <<"1","b">>,
        <<"1","_","0">>, <<"u">>, <<>>, <<"a">>, <<"1","a">>, <<"_","1">>, <<"1","_">>,
        <<"-">>, <<"1","b","1">>, <<"2","5","6">>, <<"0","0","7">>, <<"g","1">> }
PL == { <<"a","c">>, <<>>, <<"a">>, <<"b","a">>, <<"a","b">>, <<"1">>, <<"a","r","a">>, <<"a","b","a">>, <<"u","_">> }
TR == { <<>>, <<"n">>, <<"r","n">>, <<"b","n">>, <<"r">>, <<"g","n">> }
IntVals == {-1, 0, 1, 255, 256, 1000}
NoMsg == [ok |-> TRUE, h |-> <<0,0,0,0,0>>, p |-> <<>>]

RECURSIVE JoinS(_)
JoinS(fs) == IF Len(fs) = 1 THEN fs[1] ELSE fs[1] \o <<"s">> \o JoinS(Tail(fs))

InitLine ==
  \E nf \in 1..8, i \in 1..7, j \in 1..7, fi \in HF, fj \in HF, pl \in PL, tr \in TR :
     /\ i <= j
     /\ kind = "line" /\ msg = NoMsg /\ repl = <<>>
     /\ line = JoinS([k \in 1..nf |-> IF k = nf THEN pl ELSE IF k = i THEN fi
                                       ELSE IF k = j THEN fj ELSE <<"1">>]) \o tr
InitMsg ==
  \E h \in [1..5 -> IntVals], p \in PL :
     /\ kind = "msg" /\ line = <<>> /\ repl = <<>>
     /\ msg = [ok |-> TRUE, h |-> h, p |-> p]
InitCopy ==
  \E S \in SUBSET (1..6), p \in PL, q \in PL, x \in IntVals :
     /\ kind = "copy" /\ line = <<>>
     /\ msg = [ok |-> TRUE, h |-> <<1, 2, 3, 0, 5>>, p |-> p]
     /\ repl = [k \in S |-> IF k = 6 THEN q ELSE x + k]
Init == InitLine \/ InitMsg \/ InitCopy
Next == UNCHANGED vars

\* --- the laws of C02 -----------------------------------------------------------
\* decoding any accepted line and re-encoding yields one canonical line that decodes
\* to the same message again (and is a fixed point)
CanonicalFixpoint ==
  kind = "line" /\ Decode(line).ok =>
     LET m == Decode(line)  c == Encode(m) IN
       /\ Canonical(c, m)
       /\ Decode(c) = m
       /\ Encode(Decode(c)) = c
       /\ Carriable(m.p)
\* encode then decode is the identity on messages with a carriable payload
RoundTrip ==
  kind = "msg" /\ Carriable(msg.p) => Decode(Encode(msg)) = msg
\* a copy differs from its original exactly in the replaced fields
CopyExact ==
  kind = "copy" /\ Carriable(msg.p) =>
     LET c == Copy(msg, repl) IN
       /\ c.ok
       /\ \A k \in 1..5 : c.h[k] = IF k \in DOMAIN repl THEN repl[k] ELSE msg.h[k]
       /\ c.p = IF 6 \in DOMAIN repl THEN repl[6] ELSE msg.p
\* vacuity witnesses (must be violated = reachable): see harness/c02.py
SomeLineDecodes == ~(kind = "line" /\ Decode(line).ok)
SomeLineFails   == ~(kind = "line" /\ ~Decode(line).ok)
=============================================================================
