------------------------------ MODULE SendRace ------------------------------
(***************************************************************************)
(* Property C16: sending races with connection loss, disconnect and        *)
(* reconnect (mysensors/transport.py, task.py), at the grain of one action *)
(* per access to shared state:                                             *)
(*   proto   Transport.protocol (FALSE after disconnect())                 *)
(*   ptr     protocol.transport: the current connection id, 0 = None       *)
(*   open    which connection objects are open                             *)
(* Actors: the pump (pops the job queue and sends under the send lock),    *)
(* producers (append to the queue), the reader thread reporting a lost     *)
(* connection, the user calling disconnect(), the connect thread.          *)
(* Snapshot = TRUE models the repaired send()/disconnect() (one read of    *)
(* the connection, then use it); Snapshot = FALSE the pinned code, which   *)
(* re-reads protocol.transport at the write - TLC then finds the           *)
(* AttributeError.  ClearFirst = TRUE models the repaired _connection_lost *)
(* (connection reference cleared before the reconnect is started).         *)
(***************************************************************************)
EXTENDS Integers, Sequences, FiniteSets, TLC

CONSTANTS NMsgs,        \* the producers queue the messages 1..NMsgs, in this order
          Snapshot, ClearFirst,
          LostExc,      \* the loss event carries an error (TRUE) or not (FALSE)
          WithUser, WithLost, WithConnector,
          WithStop,     \* the user calls stop() (= disconnect(), then the pump's stop flag) instead of disconnect() alone
          MaxConn

Msgs == [i \in 1..NMsgs |-> i]

VARIABLES proto, ptr, open, nconn,
          queue, nextmsg,           \* job deque; nextmsg = 1 + number of messages appended so far
          produced,                 \* history: the messages in the order the producers appended them
          spc, sst, smsg,           \* pump/sender: pc, snapshot of the connection, message in hand
          lpc, lconn,               \* reader thread (connection lost)
          upc, ust,                 \* user disconnect
          kpend, kpc, kconn,        \* connect thread(s): pending reconnect requests
          written, raised, cbLost, cbMade, reconnects, dropped,
          stopflag                  \* SyncTasks._stop_event
vars == <<proto, ptr, open, nconn, queue, nextmsg, produced, spc, sst, smsg, lpc, lconn, upc, ust, kpend, kpc, kconn,
          written, raised, cbLost, cbMade, reconnects, dropped, stopflag>>

Init ==
  /\ proto = TRUE /\ ptr = 1 /\ open = [c \in 1..MaxConn |-> c = 1] /\ nconn = 1
  /\ queue = <<>> /\ nextmsg = 1 /\ produced = <<>>
  /\ spc = "idle" /\ sst = 0 /\ smsg = 0
  /\ lpc = (IF WithLost THEN "l0" ELSE "done") /\ lconn = 0
  /\ upc = (IF WithUser THEN "u0" ELSE "done") /\ ust = 0
  /\ kpend = 0 /\ kpc = "idle" /\ kconn = 0
  /\ written = <<>> /\ raised = {} /\ cbLost = 0 /\ cbMade = 1 /\ reconnects = 0 /\ dropped = <<>>
  /\ stopflag = FALSE

\* ---- producers and pump (thread-safe deque: append and popleft are atomic) ----
\* several producer threads: the messages 1..NMsgs are appended in any order, each once
Produce == /\ nextmsg <= NMsgs
           /\ \E m \in (1..NMsgs) \ {produced[i] : i \in 1..Len(produced)} :
                 queue' = Append(queue, m) /\ produced' = Append(produced, m)
           /\ nextmsg' = nextmsg + 1
           /\ UNCHANGED <<proto, ptr, open, nconn, spc, sst, smsg, lpc, lconn, upc, ust, kpend, kpc, kconn,
                          written, raised, cbLost, cbMade, reconnects, dropped, stopflag>>
\* _poll_queue: "while not self._stop_event.is_set():" is read at the top of every round, the queue afterwards
PTop ==    /\ spc = "idle" /\ spc' = (IF stopflag THEN "exit" ELSE "top")
           /\ UNCHANGED <<proto, ptr, open, nconn, queue, nextmsg, produced, sst, smsg, lpc, lconn, upc, ust, kpend, kpc, kconn,
                          written, raised, cbLost, cbMade, reconnects, dropped, stopflag>>
PIdle ==   /\ spc = "top" /\ queue = <<>> /\ spc' = "idle"                     \* nothing queued: sleep, next round
           /\ UNCHANGED <<proto, ptr, open, nconn, queue, nextmsg, produced, sst, smsg, lpc, lconn, upc, ust, kpend, kpc, kconn,
                          written, raised, cbLost, cbMade, reconnects, dropped, stopflag>>
Pop ==     /\ spc = "top" /\ queue # <<>> /\ smsg' = Head(queue) /\ queue' = Tail(queue) /\ spc' = "lock"
           /\ UNCHANGED <<proto, ptr, open, nconn, nextmsg, produced, sst, lpc, lconn, upc, ust, kpend, kpc, kconn,
                          written, raised, cbLost, cbMade, reconnects, dropped, stopflag>>
\* ---- Transport.send ------------------------------------------------------------
SU == <<nconn, queue, nextmsg, produced, smsg, lpc, lconn, upc, ust, kpc, kconn, cbLost, cbMade, stopflag>>
SCheck ==  \* "if not message or not self.protocol or not self.protocol.transport: return"
  /\ spc = "lock"
  /\ IF proto /\ ptr # 0
     THEN spc' = "write" /\ sst' = ptr /\ dropped' = dropped
     ELSE spc' = "idle" /\ sst' = 0 /\ dropped' = Append(dropped, smsg)
  /\ UNCHANGED <<proto, ptr, open, kpend, written, raised, reconnects>> /\ UNCHANGED SU
SWrite ==  \* "self.protocol.transport.write(...)"
  /\ spc = "write"
  /\ LET c == IF Snapshot THEN sst ELSE (IF proto THEN ptr ELSE -1) IN   \* pinned code re-reads both attributes
     IF c <= 0
     THEN /\ raised' = raised \cup {"AttributeError in send"} /\ spc' = "idle"
          /\ UNCHANGED <<written, open, sst, dropped>>
     ELSE IF open[c]
     THEN /\ written' = Append(written, <<c, smsg>>) /\ spc' = "idle" /\ UNCHANGED <<raised, open, sst, dropped>>
     ELSE /\ spc' = "eclose" /\ sst' = c /\ dropped' = Append(dropped, smsg)     \* OSError: not written
          /\ UNCHANGED <<written, raised, open>>
  /\ UNCHANGED <<proto, ptr, kpend, reconnects>> /\ UNCHANGED SU
SErrClose ==
  /\ spc = "eclose" /\ open' = [open EXCEPT ![sst] = FALSE] /\ spc' = "ereconn"
  /\ UNCHANGED <<proto, ptr, sst, kpend, written, raised, reconnects, dropped>> /\ UNCHANGED SU
SErrReconnect ==
  /\ spc = "ereconn" /\ kpend' = kpend + 1 /\ reconnects' = reconnects + 1 /\ spc' = "idle"
  /\ UNCHANGED <<proto, ptr, open, sst, written, raised, dropped>> /\ UNCHANGED SU
\* ---- reader thread: connection_lost(exc) -----------------------------------------
LU == <<proto, nconn, queue, nextmsg, produced, spc, sst, smsg, upc, ust, kpc, kconn, written, raised, cbMade, dropped, stopflag>>
L0 == /\ lpc = "l0" /\ lconn' = ptr
      /\ open' = IF LostExc /\ ptr # 0 THEN [open EXCEPT ![ptr] = FALSE] ELSE open      \* "if exc: self.transport.serial.close()"
      /\ lpc' = "l1" /\ UNCHANGED <<ptr, kpend, cbLost, reconnects>> /\ UNCHANGED LU
L1 == /\ lpc = "l1" /\ cbLost' = cbLost + 1                                             \* on_conn_lost(gateway, exc)
      /\ lpc' = IF ClearFirst THEN "l3" ELSE "l2"
      /\ UNCHANGED <<ptr, open, lconn, kpend, reconnects>> /\ UNCHANGED LU
L2 == /\ lpc = "l2"                                                                     \* "if exc: self.conn_lost_callback()"
      /\ IF LostExc THEN kpend' = kpend + 1 /\ reconnects' = reconnects + 1 ELSE UNCHANGED <<kpend, reconnects>>
      /\ lpc' = IF ClearFirst THEN "done" ELSE "l3"
      /\ UNCHANGED <<ptr, open, lconn, cbLost>> /\ UNCHANGED LU
L3 == /\ lpc = "l3" /\ ptr' = 0                                                         \* "self.transport = None"
      /\ lpc' = IF ClearFirst THEN "l2" ELSE "done"
      /\ UNCHANGED <<open, lconn, kpend, cbLost, reconnects>> /\ UNCHANGED LU
\* ---- user: Transport.disconnect() ---------------------------------------------------
UU == <<nconn, queue, nextmsg, produced, spc, sst, smsg, lpc, lconn, kpend, kpc, kconn, written, cbLost, cbMade, reconnects, dropped, stopflag>>
UEnd == IF WithStop THEN "u3" ELSE "done"
U0 == /\ upc = "u0" /\ ust' = (IF proto THEN ptr ELSE 0) /\ upc' = "u0b"       \* reads protocol and protocol.transport
      /\ UNCHANGED <<proto, ptr, open, raised>> /\ UNCHANGED UU
U0b == /\ upc = "u0b"
       /\ IF ust = 0 THEN proto' = FALSE /\ upc' = UEnd ELSE proto' = proto /\ upc' = "u1"
       /\ UNCHANGED <<ptr, open, ust, raised>> /\ UNCHANGED UU
U1 == /\ upc = "u1"                                                                     \* "self.protocol.transport.close()"
      /\ LET c == IF Snapshot THEN ust ELSE ptr IN
         IF c = 0 THEN raised' = raised \cup {"AttributeError in disconnect"} /\ open' = open
                  ELSE open' = [open EXCEPT ![c] = FALSE] /\ raised' = raised
      /\ upc' = "u2" /\ UNCHANGED <<proto, ptr, ust>> /\ UNCHANGED UU
U2 == /\ upc = "u2" /\ proto' = FALSE /\ upc' = UEnd
      /\ UNCHANGED <<ptr, open, ust, raised>> /\ UNCHANGED UU
\* SyncTasks.stop(): "self.transport.disconnect(); self._stop_event.set()"
U3 == /\ upc = "u3" /\ stopflag' = TRUE /\ upc' = "done"
      /\ UNCHANGED <<proto, ptr, open, nconn, queue, nextmsg, produced, spc, sst, smsg, lpc, lconn, ust, kpend, kpc, kconn,
                     written, raised, cbLost, cbMade, reconnects, dropped>>
\* ---- connect thread ------------------------------------------------------------------
KU == <<queue, nextmsg, produced, spc, sst, smsg, lpc, lconn, upc, ust, written, raised, cbLost, reconnects, dropped, stopflag>>
K0 == /\ WithConnector /\ kpc = "idle" /\ kpend > 0 /\ nconn < MaxConn
      /\ IF proto THEN /\ nconn' = nconn + 1 /\ kconn' = nconn + 1 /\ open' = [open EXCEPT ![nconn + 1] = TRUE] /\ kpc' = "k1"
                  ELSE /\ UNCHANGED <<nconn, kconn, open>> /\ kpc' = "idle"           \* "while transport.protocol" is false
      /\ kpend' = kpend - 1
      /\ UNCHANGED <<proto, ptr, cbMade>> /\ UNCHANGED KU
K1 == /\ kpc = "k1" /\ ptr' = kconn /\ cbMade' = cbMade + 1 /\ kpc' = "idle"            \* connection_made(new transport)
      /\ UNCHANGED <<proto, open, nconn, kconn, kpend>> /\ UNCHANGED KU

Next == Produce \/ PTop \/ PIdle \/ Pop \/ SCheck \/ SWrite \/ SErrClose \/ SErrReconnect
        \/ L0 \/ L1 \/ L2 \/ L3 \/ U0 \/ U0b \/ U1 \/ U2 \/ U3 \/ K0 \/ K1
Spec == Init /\ [][Next]_vars

(***************************************************************************)
(* Properties.                                                             *)
(***************************************************************************)
NoExceptionIntoPump == "AttributeError in send" \notin raised
NoExceptionIntoUser == "AttributeError in disconnect" \notin raised
SentMsgs == [i \in 1..Len(written) |-> written[i][2]]
AtMostOnce == \A i, j \in 1..Len(written) : i # j => written[i][2] # written[j][2]
\* every message that left the queue was either written once or dropped, never both, and in queue order
IsSubseqOf(s, t) == \E f \in [1..Len(s) -> 1..Len(t)] :
                        (\A i \in 1..Len(s) : t[f[i]] = s[i]) /\ (\A i, j \in 1..Len(s) : i < j => f[i] < f[j])
QueueOrder == IsSubseqOf(SentMsgs, produced)
ExactlyOnceOrDropped ==
  (spc \in {"idle", "top"} /\ queue = <<>> /\ nextmsg > Len(Msgs)) =>
     /\ Len(written) + Len(dropped) = Len(Msgs)
     /\ \A i \in 1..Len(Msgs) : (\E j \in 1..Len(written) : written[j][2] = Msgs[i]) # (\E j \in 1..Len(dropped) : dropped[j] = Msgs[i])
\* nothing is lost silently and nothing is invented: between two rounds of the pump every message appended so far is
\* written, dropped by send() or still queued (after stop() what is still queued stays unsent)
Conservation == spc \in {"idle", "top", "exit"} => Len(written) + Len(dropped) + Len(queue) = nextmsg - 1
\* after the pump has seen the stop flag nothing is written any more
NoWriteAfterExit == [][spc = "exit" => written' = written]_vars
\* C20 flavour: a new connection must not be forgotten by the old reader thread clearing the reference
NoOrphanedConnection ==
  (lpc = "done" /\ kpc = "idle" /\ kpend = 0 /\ proto) =>
     \A c \in 1..nconn : open[c] => ptr = c
=============================================================================
