------------------------------ MODULE ConfigTrace ------------------------------
(* env TRACE_FILE: {"C": [[cls, [opt,...], [val,...], constructed(0/1), [[opt, observed], ...]], ...], *)
(*                  "V": [[kind("gw"|"node"), valid(0/1), major, minor, observedClass], ...]}          *)
EXTENDS Config, Json, IOUtils, TLCExt
T == JsonDeserialize(IOEnv.TRACE_FILE)
ASSUME AllDocumentedSubsetsAccepted
ASSUME FloorMonotone
ASSUME FloorExamples
COk(r) ==
  LET cls == r[1]
      given == [o \in {r[2][i] : i \in 1..Len(r[2])} |-> r[3][CHOOSE i \in 1..Len(r[2]) : r[2][i] = o]]
  IN /\ Constructs(cls, DOMAIN given) => r[4] = 1
     /\ r[4] = 1 => \A i \in 1..Len(r[5]) : r[5][i][2] = Effect(cls, given, r[5][i][1])
VOk(r) == IF r[1] = "gw" THEN r[5] = GatewayClass(r[2] = 1, r[3], r[4])
          ELSE IF r[1] = "nodeattr" THEN r[5] = NodeAttrClass(r[2] = 1, r[3], r[4])
          ELSE IF r[1] = "gwhb" THEN r[5] = HeartbeatClass(r[2] = 1, r[3], r[4])
          ELSE r[5] = NodeClass(r[2] = 1, r[3], r[4])
BadC == {i \in 1..Len(T.C) : ~COk(T.C[i])}
BadV == {i \in 1..Len(T.V) : ~VOk(T.V[i])}
ASSUME PrintT(<<"BADC", BadC>>)
ASSUME PrintT(<<"BADV", BadV>>)
ASSUME PrintT(<<"COUNT", Len(T.C), Len(T.V)>>)
\* the model-checked part: every (class, subset) is a state
VARIABLES cls, S
Init == cls \in Classes /\ S \in SUBSET Options(cls)
Next == UNCHANGED <<cls, S>>
SubsetAccepted == Constructs(cls, S)
=============================================================================
