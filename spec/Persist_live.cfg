SPECIFICATION FairSpec
CONSTANTS MaxVersion = 3
 MaxFaults = 2
 SilentRace = FALSE
PROPERTY Heals
CHECK_DEADLOCK FALSE
