SPECIFICATION FairSpec
CONSTANTS MaxVersion = 3
 MaxFaults = 2
  ClaimFirst = TRUE
 SilentRace = TRUE
PROPERTY Heals
CHECK_DEADLOCK FALSE
