------------------------------- MODULE Framing -------------------------------
(***************************************************************************)
(* Newline-terminated framing of the inbound byte stream (property C19,    *)
(* first half): the sequence of complete lines handed to the gateway is a  *)
(* function of the byte stream alone, whatever the chunking.               *)
(* Bytes are classes: "n" LF, "r" CR, "a" other byte, "m" a byte that is   *)
(* part of a multi-byte character (splitting inside it must not matter).   *)
(***************************************************************************)
EXTENDS Integers, Sequences, FiniteSets, TLC
CONSTANT MaxLen
Bytes == {"n", "r", "a", "m"}

\* the lines of a stream: maximal LF-free runs that are followed by an LF (the unterminated tail stays buffered)
RECURSIVE Lines(_)
Lines(s) == IF \A i \in 1..Len(s) : s[i] # "n" THEN <<>>
            ELSE LET k == CHOOSE i \in 1..Len(s) : s[i] = "n" /\ \A j \in 1..(i-1) : s[j] # "n"
                 IN <<SubSeq(s, 1, k - 1)>> \o Lines(SubSeq(s, k + 1, Len(s)))
RECURSIVE Rest(_)
Rest(s) == IF \A i \in 1..Len(s) : s[i] # "n" THEN s
           ELSE LET k == CHOOSE i \in 1..Len(s) : s[i] = "n" /\ \A j \in 1..(i-1) : s[j] # "n"
                IN Rest(SubSeq(s, k + 1, Len(s)))

VARIABLES stream, cuts, pos, buffer, emitted
vars == <<stream, cuts, pos, buffer, emitted>>
Init == /\ stream \in UNION {[1..k -> Bytes] : k \in 0..MaxLen}
        /\ cuts \in SUBSET (1..(MaxLen - 1))           \* a chunk boundary after byte i for i in cuts
        /\ pos = 0 /\ buffer = <<>> /\ emitted = <<>>
\* data_received(chunk): append to the buffer, hand out every complete line
NextCut == IF {c \in cuts : c > pos /\ c < Len(stream)} = {} THEN Len(stream)
           ELSE CHOOSE c \in cuts : c > pos /\ c < Len(stream) /\ \A d \in cuts : (d > pos /\ d < Len(stream)) => c <= d
Feed == /\ pos < Len(stream)
        /\ LET chunk == SubSeq(stream, pos + 1, NextCut)  b == buffer \o chunk IN
             /\ emitted' = emitted \o Lines(b)
             /\ buffer' = Rest(b)
        /\ pos' = NextCut
        /\ UNCHANGED <<stream, cuts>>
Next == Feed
Spec == Init /\ [][Next]_vars
\* at every point the lines handed out are exactly the lines of the bytes received so far
ChunkingIrrelevant == emitted = Lines(SubSeq(stream, 1, pos)) /\ buffer = Rest(SubSeq(stream, 1, pos))
=============================================================================
