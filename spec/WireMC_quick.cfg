INIT Init
NEXT Next
CONSTANT Tier = "quick"
INVARIANT CanonicalFixpoint
INVARIANT RoundTrip
INVARIANT CopyExact
