SPECIFICATION Spec
CONSTANTS NMsgs = 3
 Snapshot = TRUE
 ClearFirst = FALSE
 LostExc = TRUE
 WithUser = FALSE
 WithLost = TRUE
 WithStop = FALSE
 WithConnector = TRUE
 MaxConn = 3
INVARIANT NoExceptionIntoPump
INVARIANT NoExceptionIntoUser
INVARIANT AtMostOnce
INVARIANT QueueOrder
INVARIANT ExactlyOnceOrDropped
INVARIANT Conservation
PROPERTY NoWriteAfterExit
CHECK_DEADLOCK FALSE
