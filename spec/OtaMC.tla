-------------------------------- MODULE OtaMC --------------------------------
(* Checks the arithmetic of Ota.tla itself for every image length 1..MaxLen    *)
(* (all residues mod 16 and mod 128): blocks 0..B-1 concatenate to the padded  *)
(* image, which satisfies PadOk; CRC check value of the standard test vector.  *)
EXTENDS Ota, TLC
CONSTANT MaxLen
VARIABLE n
Img(k) == [i \in 1..k |-> (i * 7 + 3) % 256]
ASSUME Crc16Modbus(<<49, 50, 51, 52, 53, 54, 55, 56, 57>>) = 19255     \* 0x4B37
Init == n \in 1..MaxLen
Next == UNCHANGED n
Reassembly ==
  LET img == Img(n)  p == Pad(img)  b == Blocks(p) IN
    /\ PadOk(img, p)
    /\ b * BLOCK = Len(p)
    /\ Concat(p, b) = p
    /\ ConfigOk(img, 10, 2, <<10, 2, b, Crc16Modbus(p)>>)
    /\ \A i \in 0..(b - 1) : BlockOk(img, b, 10, 2, i, <<10, 2, i, Block(p, i)>>)
    /\ (n % PAGE = 0 => ConfigOk(img, 10, 2, <<10, 2, n \div BLOCK, Crc16Modbus(img)>>))   \* no extra page is allowed too
=============================================================================
