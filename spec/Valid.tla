------------------------------- MODULE Valid -------------------------------
(***************************************************************************)
(* Per-version acceptance of a well-formed MySensors serial line.          *)
(*                                                                         *)
(* HAND-WRITTEN from the MySensors serial API (1.4, 1.5, 2.0, 2.1, 2.2):   *)
(* nothing in this module is generated from the library.  A line is a      *)
(* header  h = [n, c, cmd, ack, sub]  of integers plus a payload           *)
(* descriptor p (a record produced by the lexer in harness/payload.py or   *)
(* hand-labelled in corpus/): the LEXICAL class of the text (is it an      *)
(* integer, a float, hex, ...) comes with the payload, every RANGE, WORD   *)
(* LIST, LENGTH and TABLE lives here.                                      *)
(***************************************************************************)
EXTENDS Integers, Sequences, FiniteSets

Versions == {"1.4", "1.5", "2.0", "2.1", "2.2"}
VerSeq   == <<"1.4", "1.5", "2.0", "2.1", "2.2">>
VerIdx(v) == CHOOSE i \in 1..5 : VerSeq[i] = v
Is2x(v)  == v \in {"2.0", "2.1", "2.2"}

BROADCAST == 255
SYSCHILD  == 255
MAXNODE   == 254

\* commands
PRES == 0  SET == 1  REQ == 2  INTERNAL == 3  STREAM == 4

\* internal sub-types referred to by name elsewhere
I_BATTERY == 0   I_TIME == 1      I_VERSION == 2   I_ID_REQ == 3   I_ID_RESP == 4
I_INCLUSION == 5 I_CONFIG == 6    I_FIND_PARENT == 7  I_FIND_PARENT_RESP == 8
I_LOG == 9       I_CHILDREN == 10 I_SKETCH_NAME == 11 I_SKETCH_VER == 12
I_REBOOT == 13   I_GW_READY == 14 I_HEARTBEAT == 18   I_PRESENTATION == 19
I_DISCOVER == 20 I_DISCOVER_RESP == 21 I_HB_RESP == 22 I_PRE_SLEEP == 32
ST_CFG_REQ == 0  ST_CFG_RESP == 1 ST_FW_REQ == 2  ST_FW_RESP == 3
S_NODE == 17     S_REPEATER == 18 S_CUSTOM == 23

(***************************************************************************)
(* Defined sub-types.  Every enumeration of the serial API is contiguous   *)
(* from 0, so a table is its largest member.                               *)
(***************************************************************************)
MaxPres(v)     == CASE v = "1.4" -> 25 [] v = "1.5" -> 35 [] OTHER -> 39
MaxSetReq(v)   == CASE v = "1.4" -> 39 [] v = "1.5" -> 46 [] OTHER -> 56
MaxInternal(v) == CASE v = "1.4" -> 14 [] v = "1.5" -> 17 [] v = "2.0" -> 28
                    [] v = "2.1" -> 28 [] v = "2.2" -> 33
MaxStream(v)   == 5

MaxSub(v, cmd) == CASE cmd = PRES -> MaxPres(v) [] cmd = SET -> MaxSetReq(v)
                    [] cmd = REQ -> MaxSetReq(v) [] cmd = INTERNAL -> MaxInternal(v)
                    [] cmd = STREAM -> MaxStream(v)

Defined(v, cmd, sub) == cmd \in 0..4 /\ sub \in 0..MaxSub(v, cmd)

(***************************************************************************)
(* Payload rules.                                                          *)
(***************************************************************************)
RuleNames == {"any", "empty", "bin01", "pct_int", "float_0_100", "float_m1_1",
              "int", "int_1_254", "int_0_254", "cfg", "time", "heater_mode",
              "hvac_speed", "hex6", "hex8", "gps", "version_ge_14"}

HeaterModes == {"Off", "HeatOn", "CoolOn", "AutoChangeOver"}
HvacSpeeds  == {"Min", "Normal", "Max", "Auto"}

\* p : payload descriptor (see harness/payload.py).  Fields used here:
\*   e   text is empty            w    the text itself when it is a short ASCII word, else ""
\*   int int() accepts it         iv   its value clamped to -100000..100000
\*   fl  float() accepts it       c0,c100,cm1,c1  sign of (value - 0 / 100 / -1 / 1)
\*   hex unhexlify accepts it     len  number of characters (clamped to 1000)
\*   gn  number of comma-separated parts      gf  every part is a float
\*   vok it is a version string >= 1.4 under numeric comparison
RuleOk(r, p) ==
  CASE r = "any"         -> TRUE
    [] r = "empty"       -> p.e
    [] r = "bin01"       -> p.w \in {"0", "1"}
    [] r = "pct_int"     -> p.int /\ p.iv >= 0 /\ p.iv <= 100
    [] r = "float_0_100" -> p.fl /\ p.c0 >= 0 /\ p.c100 <= 0
    [] r = "float_m1_1"  -> p.fl /\ p.cm1 >= 0 /\ p.c1 <= 0
    [] r = "int"         -> p.int
    [] r = "int_1_254"   -> p.int /\ p.iv >= 1 /\ p.iv <= MAXNODE
    [] r = "int_0_254"   -> p.int /\ p.iv >= 0 /\ p.iv <= MAXNODE
    [] r = "cfg"         -> (p.int /\ p.iv >= 0 /\ p.iv <= MAXNODE) \/ p.w \in {"M", "I"}
    [] r = "time"        -> p.e \/ p.int
    [] r = "heater_mode" -> p.w \in HeaterModes
    [] r = "hvac_speed"  -> p.w \in HvacSpeeds
    [] r = "hex6"        -> p.hex /\ p.len = 6
    [] r = "hex8"        -> p.hex /\ p.len = 8
    [] r = "gps"         -> p.gn = 3 /\ p.gf
    [] r = "version_ge_14" -> p.vok

\* set/req value types ----------------------------------------------------
SetRule14(t) ==
  CASE t \in {2, 15, 16, 22, 36} -> "bin01"      \* light, armed, tripped, heater switch, lock
    [] t = 3  -> "pct_int"                        \* dimmer
    [] t = 21 -> "heater_mode"                    \* V_HEATER
    [] t = 23 -> "float_0_100"                    \* light level
    [] OTHER  -> "any"

SetRule15(t) ==
  CASE t \in {2, 15, 16, 36} -> "bin01"           \* status, armed, tripped, lock
    [] t = 3  -> "pct_int"                        \* percentage
    [] t = 21 -> "heater_mode"                    \* HVAC flow state
    [] t = 22 -> "hvac_speed"                     \* HVAC fan speed
    [] t = 23 -> "float_0_100"
    [] t = 40 -> "hex6"                           \* RGB
    [] t = 41 -> "hex8"                           \* RGBW
    [] t \in {44, 45} -> "float_0_100"            \* HVAC set points
    [] OTHER  -> "any"

SetRule20(t) ==
  CASE t = 49 -> "gps"                            \* position
    [] t = 56 -> "float_m1_1"                     \* power factor
    [] OTHER  -> SetRule15(t)

SetRule(v, t) == CASE v = "1.4" -> SetRule14(t) [] v = "1.5" -> SetRule15(t) [] OTHER -> SetRule20(t)

\* internal ---------------------------------------------------------------
IntRule14(s) ==
  CASE s = 0 -> "pct_int"        \* battery level
    [] s = 1 -> "time"
    [] s = 3 -> "empty"          \* id request
    [] s = 4 -> "int_1_254"      \* id response
    [] s = 5 -> "bin01"          \* inclusion mode
    [] s = 6 -> "cfg"
    [] s = 7 -> "empty"          \* find parent
    [] s = 8 -> "int_0_254"      \* find parent response
    [] s = 13 -> "empty"         \* reboot
    [] OTHER -> "any"            \* version, log, children, sketch name/version, gateway ready

IntRule20(s) ==
  CASE s \in {18, 19, 20} -> "empty"   \* heartbeat request, presentation request, discover request
    [] s = 21 -> "int_0_254"           \* discover response (parent id)
    [] s \in {22, 24, 25} -> "int"     \* heartbeat response, ping, pong
    [] s \in {30, 31, 32, 33} -> "int" \* 2.2: signal report reverse/response, pre/post sleep
    [] OTHER -> IntRule14(s)           \* 15..17, 23, 26..29: free text

IntRule(v, s) == IF Is2x(v) THEN IntRule20(s) ELSE IntRule14(s)

PresRule(v, s) == IF s \in {S_NODE, S_REPEATER} THEN "version_ge_14" ELSE "any"

Rule(v, cmd, sub) ==
  CASE cmd = PRES     -> PresRule(v, sub)
    [] cmd = SET      -> SetRule(v, sub)
    [] cmd = REQ      -> "empty"
    [] cmd = INTERNAL -> IntRule(v, sub)
    [] cmd = STREAM   -> "any"

(***************************************************************************)
(* Header rules and acceptance.                                            *)
(***************************************************************************)
IsIdMsg(h) == h.cmd = INTERNAL /\ h.sub \in {I_ID_REQ, I_ID_RESP}

ChildOk(h) ==
  IF h.cmd \in {INTERNAL, STREAM} /\ ~IsIdMsg(h)
  THEN h.c = SYSCHILD
  ELSE h.c \in 0..255

CmdOk(h) == h.cmd \in 0..4 /\ (h.c = SYSCHILD => h.cmd \in {PRES, INTERNAL, STREAM})

HeaderOk(v, h) ==
  /\ h.n \in 0..255
  /\ ChildOk(h)
  /\ CmdOk(h)
  /\ h.ack \in {0, 1}
  /\ Defined(v, h.cmd, h.sub)

Accept(v, h, p) == HeaderOk(v, h) /\ RuleOk(Rule(v, h.cmd, h.sub), p)

(***************************************************************************)
(* Child-value schemas: which value types a presentation type may carry.   *)
(* S_CUSTOM's types are allowed for every child.                           *)
(***************************************************************************)
Types14(s) ==
  CASE s \in {0, 1, 2} -> {16, 15}
    [] s = 3  -> {2, 17}
    [] s = 4  -> {2, 3, 17}
    [] s = 5  -> {29, 30, 31, 3}
    [] s = 6  -> {0}
    [] s = 7  -> {1}
    [] s = 8  -> {4, 5}
    [] s = 9  -> {8, 9, 10}
    [] s = 10 -> {6, 7}
    [] s = 11 -> {11}
    [] s = 12 -> {12, 14}
    [] s = 13 -> {17, 18}
    [] s = 14 -> {21, 22, 0}
    [] s = 15 -> {13}
    [] s = 16 -> {23}
    [] s \in {17, 18} -> {}
    [] s = 19 -> {36}
    [] s = 20 -> {32, 33}
    [] s = 21 -> {34, 35}
    [] s = 22 -> {37}
    [] s = 23 -> {24, 25, 26, 27, 28}
    [] s = 24 -> {37}
    [] s = 25 -> {19, 20}

Types15(s) ==
  CASE s \in {0, 1, 2} -> {16, 15}
    [] s = 3  -> {2, 17}
    [] s = 4  -> {2, 3, 17}
    [] s = 5  -> {29, 30, 31, 3}
    [] s = 6  -> {0, 42, 43}
    [] s = 7  -> {1, 43}
    [] s = 8  -> {4, 5, 43}
    [] s = 9  -> {8, 9, 10, 43}
    [] s = 10 -> {6, 7, 43}
    [] s = 11 -> {11, 43}
    [] s = 12 -> {12, 14, 43}
    [] s = 13 -> {17, 18, 43}
    [] s = 14 -> {2, 0, 45, 21}
    [] s = 15 -> {13, 43}
    [] s = 16 -> {23, 37, 43}
    [] s \in {17, 18} -> {}
    [] s = 19 -> {36}
    [] s = 20 -> {32, 33}
    [] s = 21 -> {34, 35, 43}
    [] s = 22 -> {37, 43}
    [] s = 23 -> {24, 25, 26, 27, 28, 43}
    [] s = 24 -> {37, 43}
    [] s = 25 -> {19, 20}
    [] s = 26 -> {40, 17, 3}
    [] s = 27 -> {41, 17, 3}
    [] s = 28 -> {40, 43}
    [] s = 29 -> {2, 0, 45, 44, 21, 46, 22}
    [] s = 30 -> {38, 39, 14, 43}
    [] s = 31 -> {2, 16}
    [] s = 32 -> {16, 15}
    [] s \in {33, 34, 35} -> {37, 16, 15, 43}

Types20(s) ==
  CASE s = 13 -> {17, 18, 54, 55, 56, 43}
    [] s = 20 -> {32, 33, 50}
    [] s = 23 -> {24, 25, 26, 27, 28, 48, 43}
    [] s = 36 -> {47}
    [] s = 37 -> {34, 35, 43}
    [] s = 38 -> {49}
    [] s = 39 -> {0, 51, 52, 53, 2, 43}
    [] OTHER  -> Types15(s)

ChildTypes(v, s) == CASE v = "1.4" -> Types14(s) [] v = "1.5" -> Types15(s) [] OTHER -> Types20(s)

\* value types a child of presentation type s may carry under version v
SchemaTypes(v, s) == ChildTypes(v, s) \cup ChildTypes(v, S_CUSTOM)

(***************************************************************************)
(* Table theorems (checked by TLC through ValidMC.tla).                    *)
(***************************************************************************)
Cmds == 0..4
GrowsWithVersion ==
  \A i \in 1..4 : \A cmd \in Cmds : MaxSub(VerSeq[i], cmd) <= MaxSub(VerSeq[i+1], cmd)
EveryDefinedHasRule ==
  \A v \in Versions : \A cmd \in Cmds : \A s \in 0..MaxSub(v, cmd) : Rule(v, cmd, s) \in RuleNames
EveryPresTypeHasSchema ==
  \A v \in Versions : \A s \in 0..MaxPres(v) :
     /\ SchemaTypes(v, s) \subseteq 0..MaxSetReq(v)
     /\ \A t \in SchemaTypes(v, s) : SetRule(v, t) \in RuleNames
\* a rule never gets stricter for an existing sub-type except where the API renamed it
\* (1.4 V_HEATER_SW 0/1  ->  1.5 V_HVAC_SPEED words): stated so a table edit is noticed
RuleChanges ==
  {<<VerSeq[i+1], cmd, s>> : i \in 1..4, cmd \in Cmds, s \in 0..60} \cap
  {x \in Versions \X Cmds \X (0..60) :
      /\ x[1] # "1.4"
      /\ Defined(VerSeq[VerIdx(x[1]) - 1], x[2], x[3])
      /\ Rule(VerSeq[VerIdx(x[1]) - 1], x[2], x[3]) # Rule(x[1], x[2], x[3])}
OnlyKnownRuleChanges == RuleChanges = {<<"1.5", SET, 22>>}
=============================================================================
