---------------------------- MODULE SendRaceTrace ----------------------------
(* Validates traces of the real Transport.send / connection_lost / disconnect /  *)
(* connection_made code, recorded under a deterministic line-level scheduler,    *)
(* against SendRace.tla.  Only EFFECTS are logged (write, failed write, close,    *)
(* callbacks, reconnect requests, connection made, queue append); reads of the    *)
(* shared attributes and clearing them are silent steps that TLC infers.  A trace *)
(* is accepted iff some interleaving of the specification's actions has exactly   *)
(* this observable projection and all actors finish.                              *)
EXTENDS SendRace, Json, IOUtils, TLCExt
Traces == ndJsonDeserialize(IOEnv.TRACE_FILE)
ASSUME \A t \in 1..Len(Traces) : TLCSet(t, 0) /\ TLCSet(t + 100000, 0)
VARIABLES tid, pos
tvars == <<vars, tid, pos>>
N == Len(Traces[tid].ev)
Ev == Traces[tid].ev[pos]
Is(a) == pos <= N /\ Ev.a = a
Obs(act) == act /\ pos' = pos + 1 /\ tid' = tid
Sil(act) == act /\ pos' = pos /\ tid' = tid
TNext ==
  \/ Is("produce") /\ Obs(Produce) /\ produced'[Len(produced')] = Ev.m
  \/ Sil(PTop) \/ Sil(PIdle) \/ Sil(Pop) \/ Sil(SCheck)
  \/ Is("write") /\ Ev.who = "sender" /\ Obs(SWrite) /\ Len(written') = Len(written) + 1 /\ written'[Len(written')] = <<Ev.c, Ev.m>>
  \/ Is("write_failed") /\ Ev.who = "sender" /\ Obs(SWrite) /\ spc' = "eclose" /\ sst' = Ev.c
  \/ Is("close") /\ Ev.who = "sender" /\ Obs(SErrClose) /\ sst = Ev.c
  \/ Is("reconnect") /\ Ev.who = "sender" /\ Obs(SErrReconnect)
  \/ Is("close") /\ Ev.who = "reader" /\ Obs(L0) /\ LostExc /\ lconn' = Ev.c
  \/ ~LostExc /\ Sil(L0)
  \/ Is("cb_lost") /\ Obs(L1)
  \/ Is("reconnect") /\ Ev.who = "reader" /\ Obs(L2) /\ LostExc
  \/ ~LostExc /\ Sil(L2)
  \/ Sil(L3)
  \/ Sil(U0) \/ Sil(U0b)
  \/ Is("close") /\ Ev.who = "user" /\ Obs(U1) /\ raised' = raised
  \/ Sil(U2) \/ Sil(U3)
  \/ Sil(K0)
  \/ Is("made") /\ Obs(K1) /\ ptr' = Ev.c
TInit == Init /\ tid \in 1..Len(Traces) /\ pos = 1
TSpec == TInit /\ [][TNext]_tvars
AllDone == /\ \/ (spc \in {"idle", "top"} /\ queue = <<>>)
              \/ spc = "exit"                                   \* the pump saw the stop flag: what is queued stays queued
           /\ lpc = "done" /\ upc = "done" /\ kpc = "idle"
\* a trace is accepted when every event is consumed and every actor can finish
Accepting == pos = N + 1 /\ AllDone /\ nextmsg = Traces[tid].nproduced + 1 /\ Len(dropped) = Traces[tid].ndropped
             /\ Len(queue) = Traces[tid].nleft
Track == /\ (Accepting => TLCSet(tid, 1))
         \* C20 (AtMostOneLiveLink under interleavings): remember accepted traces that end with an orphaned connection
         /\ ((Accepting /\ kpend = 0 /\ ~NoOrphanedConnection) => TLCSet(tid + 100000, 1))
Rejected == {t \in 1..Len(Traces) : TLCGet(t) # 1}
Orphans == {t \in 1..Len(Traces) : TLCGet(t + 100000) = 1}
Post == PrintT(<<"REJECTEDSET", Rejected>>) /\ PrintT(<<"ORPHANSET", Orphans>>)
=============================================================================
