SPECIFICATION Spec
CONSTANTS MaxVersion = 4
 MaxFaults = 3
  ClaimFirst = TRUE
 SilentRace = TRUE
INVARIANT TypeOK
INVARIANT AtomicReplace
INVARIANT SaveCommitsCurrentSnapshot
INVARIANT LoadWhole
INVARIANT FailedAttemptHarmless
INVARIANT NoLostUpdate
PROPERTY ScheduleAlive
CHECK_DEADLOCK FALSE
