SPECIFICATION Spec
CONSTANTS MaxVersion = 4
 MaxFaults = 3
 SilentRace = TRUE
INVARIANT TypeOK
INVARIANT AtomicReplace
INVARIANT SaveCommitsCurrentSnapshot
INVARIANT LoadWhole
INVARIANT FailedAttemptHarmless
PROPERTY ScheduleAlive
CHECK_DEADLOCK FALSE
