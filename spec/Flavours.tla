------------------------------- MODULE Flavours -------------------------------
(***************************************************************************)
(* Property C19, second half: the threaded gateway (job queue + pump) and  *)
(* the asyncio gateway (inline) fed with the same sequence of lines.       *)
(* Product of two instances of Gateway.tla over a concrete alphabet.       *)
(*   StateAgree, MultisetAgree : for EVERY pump schedule                   *)
(*   SequenceAgree             : holds under the reference schedule "pump  *)
(*     drained between inbound lines" (CONSTANT Reference = TRUE); with    *)
(*     Reference = FALSE TLC produces the counterexample recorded as the   *)
(*     known finding of C19 (jobs queued by a handler are overtaken by     *)
(*     replies to lines that were already queued).                         *)
(***************************************************************************)
EXTENDS Valid, SequencesExt, FiniteSetsExt, Functions, TLC, Json, IOUtils, TLCExt

CONSTANTS GwVer, MaxId, MaxJobs, MaxDepth, Reference
Alpha == JsonDeserialize(IOEnv.ALPHABET_FILE)
Lines == Alpha.lines
Calls == Alpha.calls

VARIABLES an, ao, aj, am, ap, ad, ak, ai, aout, acb, aexc,
          sn, so, sj, sm, sp, sd, sk, si, sout, scb, sexc,
          logA, logS
avars == <<an, ao, aj, am, ap, ad, ak, ai, aout, acb, aexc>>
svars == <<sn, so, sj, sm, sp, sd, sk, si, sout, scb, sexc>>
allvars == <<avars, svars, logA, logS>>

A == INSTANCE Gateway WITH Flavour <- "async", IdGiveUpFree <- FALSE,
       nodes <- an, ota <- ao, jobs <- aj, metric <- am, pers <- ap, dirty <- ad, disk <- ak, issued <- ai,
       out <- aout, cb <- acb, exc <- aexc
S == INSTANCE Gateway WITH Flavour <- "sync", IdGiveUpFree <- FALSE,
       nodes <- sn, ota <- so, jobs <- sj, metric <- sm, pers <- sp, dirty <- sd, disk <- sk, issued <- si,
       out <- sout, cb <- scb, exc <- sexc

\* both machines resolve the freedom points the same way (lowest free id, canonical burst order)
CmdLess(x, y) == x.c < y.c \/ (x.c = y.c /\ x.sub < y.sub)
Choice(nd, iss, l) ==
  [id  |-> IF l.wf /\ l.h.cmd = INTERNAL /\ l.h.sub = I_ID_REQ /\ A!FreeIds(nd, iss) # {} /\ A!MaxKnown(nd) < MaxId
           THEN Min(A!FreeIds(nd, iss)) ELSE 0,
   ord |-> IF l.wf /\ l.h.cmd = INTERNAL /\ l.h.sub = A!WakeKind /\ l.h.n \in DOMAIN nd
           THEN SetToSortSeq(A!BurstSet(nd, l.h.n), CmdLess) ELSE <<>>,
   ack |-> IF l.wf THEN l.h.ack ELSE 0]

Init == A!Init /\ S!Init /\ logA = <<>> /\ logS = <<>>

RecvBoth(i) ==
  /\ Len(sj) < MaxJobs
  /\ Reference => sj = <<>>
  /\ A!RecvAsync(Lines[i], Choice(an, ai, Lines[i]))
  /\ S!RecvSync(Lines[i])
  /\ logA' = logA \o aout' /\ logS' = logS
PumpS ==
  /\ sj # <<>>
  /\ S!Pump(IF Head(sj).k = "L" THEN Choice(sn, si, Head(sj).l) ELSE [id |-> 0, ord |-> <<>>, ack |-> 0])
  /\ UNCHANGED avars
  /\ logS' = logS \o sout' /\ logA' = logA
CallBoth(i) ==
  LET c == Calls[i] IN
  /\ sj = <<>>        \* a controller call reads the state: only compared when the threaded gateway has caught up
  /\ c.a = "SetChild"
  /\ A!CSetChild(c.n, c.c, c.t, c.v, c.ack) /\ S!CSetChild(c.n, c.c, c.t, c.v, c.ack)
  /\ logA' = logA \o aout' /\ logS' = logS \o sout'
Next == (\E i \in 1..Len(Lines) : RecvBoth(i)) \/ PumpS \/ (\E i \in 1..Len(Calls) : CallBoth(i))
Spec == Init /\ [][Next]_allvars
Bound == TLCGet("level") <= MaxDepth

Count(s, x) == Cardinality({i \in 1..Len(s) : s[i] = x})
SameBag(s, t) == Len(s) = Len(t) /\ \A i \in 1..Len(s) : Count(s, s[i]) = Count(t, s[i])
Quiet == sj = <<>>
StateAgree    == Quiet => an = sn /\ ao = so /\ ai = si
MultisetAgree == Quiet => SameBag(logA, logS)
SequenceAgree == Quiet => logA = logS
=============================================================================
