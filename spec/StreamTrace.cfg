INIT Init
NEXT Next
