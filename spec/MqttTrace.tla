------------------------------- MODULE MqttTrace -------------------------------
(* Recorded executions of the real MQTT transport against Mqtt.tla (env TRACE_FILE): *)
(* {"P": [[inPrefixLevels, outPrefixLevels, cmdLevels(5), payload, pubTopicLevels,    *)
(*         pubPayload, pubQos, retainOk(0/1)], ...],                                   *)
(*  "R": [[inPrefixLevels, topicLevels, payload, qos, accepted(0/1), handedLevels(5), handedPayload, raised(0/1)], ...], *)
(*  "S": [[inPrefixLevels, nodes, kids([n,c] pairs), subs(list of level lists)], ...]} *)
EXTENDS Mqtt, Json, IOUtils, TLC, TLCExt
T == JsonDeserialize(IOEnv.TRACE_FILE)
ToSetOf(s) == {s[i] : i \in 1..Len(s)}
POk(r) == LET cmd == [h |-> r[3], p |-> r[4]] IN
   /\ r[5] = PubTopic(r[2], cmd) /\ r[6] = r[4] /\ r[7] = PubQos(cmd) /\ r[8] = 1
ROk(r) ==
   /\ r[8] = 0
   /\ (r[5] = 1) <=> Accepts(r[1], r[2])
   /\ r[5] = 1 => LET c == ToCommand(r[1], r[2], r[3], r[4]) IN r[6] = c.h /\ r[7] = c.p
SOk(r) == SubsCover(r[1], [nodes |-> ToSetOf(r[2]), kids |-> {<<x[1], x[2]>> : x \in ToSetOf(r[3])}], ToSetOf(r[4]))
BadP == {i \in 1..Len(T.P) : ~POk(T.P[i])}
BadR == {i \in 1..Len(T.R) : ~ROk(T.R[i])}
BadS == {i \in 1..Len(T.S) : ~SOk(T.S[i])}
ASSUME PrintT(<<"BADP", BadP>>)
ASSUME PrintT(<<"BADR", BadR>>)
ASSUME PrintT(<<"BADS", BadS>>)
ASSUME PrintT(<<"COUNT", Len(T.P), Len(T.R), Len(T.S)>>)
VARIABLE x
Init == x = 0
Next == UNCHANGED x
=============================================================================
