--------------------------------- MODULE Mqtt ---------------------------------
(***************************************************************************)
(* MQTT topic <-> MySensors command mapping (property C17).                *)
(* A topic is a sequence of LEVELS (strings); the topic string is the      *)
(* levels joined by "/".  A prefix is a level sequence too: the empty      *)
(* prefix is the single empty level <<"">> (topics then start with "/").   *)
(* A command is [h |-> <<node, child, type, ack, sub>> (level strings),    *)
(* p |-> payload].                                                         *)
(***************************************************************************)
EXTENDS Integers, Sequences, FiniteSets

\* gateway -> broker
PubTopic(outPrefix, cmd) == outPrefix \o cmd.h
PubQos(cmd) == IF cmd.h[4] = "1" THEN 1 ELSE 0

\* broker -> gateway: accepted exactly when the topic is the inbound prefix followed by five levels
Accepts(inPrefix, topic) ==
  /\ Len(topic) = Len(inPrefix) + 5
  /\ SubSeq(topic, 1, Len(inPrefix)) = inPrefix
\* the command handed to Gateway.logic (ack follows QoS)
ToCommand(inPrefix, topic, payload, qos) ==
  LET l == SubSeq(topic, Len(inPrefix) + 1, Len(topic)) IN
  [h |-> <<l[1], l[2], l[3], IF qos > 0 THEN "1" ELSE "0", l[5]>>, p |-> payload]

\* C17 round trip: publish, receive back through the same prefix
RoundTrip(prefix, cmd) ==
  /\ Accepts(prefix, PubTopic(prefix, cmd))
  /\ ToCommand(prefix, PubTopic(prefix, cmd), cmd.p, PubQos(cmd)) = cmd
  /\ (PubQos(cmd) > 0 <=> cmd.h[4] = "1")

\* subscriptions that must exist after start for a network [node -> set of children]
Wild == "+"
Required(inPrefix, net) ==
  {inPrefix \o <<Wild, Wild, "0", Wild, Wild>>, inPrefix \o <<Wild, Wild, "3", Wild, Wild>>}
  \cup {inPrefix \o <<nc[1], nc[2], t, Wild, Wild>> : nc \in net.kids, t \in {"1", "2"}}
  \cup {inPrefix \o <<n, Wild, "4", Wild, Wild>> : n \in net.nodes}
SubsCover(inPrefix, net, subs) == Required(inPrefix, net) \subseteq subs
=============================================================================
