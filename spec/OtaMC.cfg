INIT Init
NEXT Next
CONSTANT MaxLen = 400
INVARIANT Reassembly
