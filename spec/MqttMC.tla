-------------------------------- MODULE MqttMC --------------------------------
(* Bounded enumeration: prefixes of 1..3 levels over {"", "1", "255", "a", "a-b"}, *)
(* headers over {"0","1","2","255"}^5, foreign topics; TLC checks the mapping laws. *)
EXTENDS Mqtt, TLC
VARIABLES prefix, cmd, other
PL == {"", "1", "255", "a", "a-b"}
Prefixes == {<<a>> : a \in PL} \cup {<<a, b>> : a \in PL \ {""}, b \in PL \ {""}}
             \cup {<<"a", b, c>> : b \in {"1", "a-b"}, c \in {"1", "255"}}
HL == {"0", "1", "2", "255"}
Init == /\ prefix \in Prefixes
        /\ cmd \in [h : [1..5 -> HL], p : {"", "x"}]
        /\ other \in Prefixes
Next == UNCHANGED <<prefix, cmd, other>>
RoundTripHolds == cmd.h[4] \in {"0", "1"} => RoundTrip(prefix, cmd)
\* a topic published under another prefix is accepted only if it really is "prefix + five levels"
ForeignRejected ==
  LET t == PubTopic(other, cmd) IN
  Accepts(prefix, t) <=> (Len(other) = Len(prefix) /\ other = prefix)
\* four and six levels after the prefix are rejected
WrongLengthRejected ==
  /\ ~Accepts(prefix, prefix \o SubSeq(cmd.h, 1, 4))
  /\ ~Accepts(prefix, prefix \o cmd.h \o <<"1">>) \/ SubSeq(prefix \o cmd.h \o <<"1">>, 1, Len(prefix)) # prefix
=============================================================================
