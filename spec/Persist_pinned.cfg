SPECIFICATION FairSpec
CONSTANTS MaxVersion = 3
 MaxFaults = 2
  ClaimFirst = FALSE
 SilentRace = TRUE
PROPERTY Heals
INVARIANT NoLostUpdate
CHECK_DEADLOCK FALSE
