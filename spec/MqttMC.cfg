INIT Init
NEXT Next
INVARIANT RoundTripHolds
INVARIANT ForeignRejected
INVARIANT WrongLengthRejected
