-------------------------------- MODULE Config --------------------------------
(***************************************************************************)
(* Property C18.                                                           *)
(* Part 1: the cooperative constructor chain of the six gateway classes as *)
(* keyword threading: every class in the chain TAKES some keywords and     *)
(* forwards the rest; the last class (Gateway) takes a fixed set and       *)
(* raises TypeError on anything else.  Each option has an EFFECT (an       *)
(* observable attribute) and a default.                                    *)
(* Part 2: version string -> behaviour: the highest supported version not  *)
(* above it under numeric comparison of (major, minor); 1.4 when lower or  *)
(* invalid.                                                                *)
(***************************************************************************)
EXTENDS Integers, Sequences, FiniteSets, TLC

Classes == {"SerialGateway", "AsyncSerialGateway", "TCPGateway", "AsyncTCPGateway", "MQTTGateway", "AsyncMQTTGateway"}
Common == {"event_callback", "persistence", "persistence_file", "protocol_version"}
Kind(cls) == IF cls \in {"SerialGateway", "AsyncSerialGateway"} THEN "serial"
             ELSE IF cls \in {"TCPGateway", "AsyncTCPGateway"} THEN "tcp" ELSE "mqtt"
Own(cls) == CASE Kind(cls) = "serial" -> {"baud", "timeout", "reconnect_timeout"}
              [] Kind(cls) = "tcp"    -> {"port", "timeout", "reconnect_timeout"}
              [] Kind(cls) = "mqtt"   -> {"in_prefix", "out_prefix", "retain"}
Options(cls) == Common \cup Own(cls)

\* the chain: concrete class, Base(A)SyncGateway, Base<Kind>Gateway, Gateway
Chain(cls) ==
  << CASE Kind(cls) = "mqtt" -> {"in_prefix", "out_prefix", "retain"} [] OTHER -> {"timeout", "reconnect_timeout"},
     {"persistence", "persistence_file"},
     CASE Kind(cls) = "serial" -> {"baud"} [] Kind(cls) = "tcp" -> {"port"} [] OTHER -> {},
     {"event_callback", "protocol_version"} >>
RECURSIVE Thread(_, _, _)
Thread(chain, i, kws) == IF i > Len(chain) THEN kws ELSE Thread(chain, i + 1, kws \ chain[i])
Constructs(cls, kws) == Thread(Chain(cls), 1, kws) = {}
AllDocumentedSubsetsAccepted == \A cls \in Classes : \A S \in SUBSET Options(cls) : Constructs(cls, S)

Default(o) == CASE o = "timeout" -> "1.0" [] o = "reconnect_timeout" -> "10.0" [] o = "baud" -> "115200"
                [] o = "port" -> "5003" [] o = "persistence" -> "False" [] o = "persistence_file" -> "mysensors.pickle"
                [] o = "protocol_version" -> "1.4" [] o = "in_prefix" -> "" [] o = "out_prefix" -> ""
                [] o = "retain" -> "True" [] o = "event_callback" -> "none"
\* given : function option -> value (as text); observed effect of option o
Effect(cls, given, o) ==
  LET val(x) == IF x \in DOMAIN given THEN given[x] ELSE Default(x) IN
  IF o = "persistence_file" THEN (IF val("persistence") = "True" THEN val(o) ELSE "n/a") ELSE val(o)

\* ---- Part 2 -------------------------------------------------------------------
Supported == << <<1, 4>>, <<1, 5>>, <<2, 0>>, <<2, 1>>, <<2, 2>> >>
Name(i) == <<"1.4", "1.5", "2.0", "2.1", "2.2">>[i]
Ge(a, b) == a[1] > b[1] \/ (a[1] = b[1] /\ a[2] >= b[2])
Floor(maj, min) ==
  LET S == {i \in 1..5 : Ge(<<maj, min>>, Supported[i])} IN
  IF S = {} THEN "1.4" ELSE Name(CHOOSE i \in S : \A j \in S : j <= i)
\* what can be told apart by behaviour: 2.0 and 2.1 accept and answer the same frames
ObsClass(f) == IF f = "2.1" THEN "2.0" ELSE f
\* version given as gateway option: valid = the text is major.minor[.patch]
GatewayClass(valid, maj, min) == IF ~valid THEN "1.4" ELSE ObsClass(Floor(maj, min))
\* a heartbeat response from a node announces smart sleep in 2.0 and 2.1 only (2.2 has its own message for that; before 2.0 the
\* message does not exist): a command for the node afterwards is held back exactly there
HeartbeatClass(valid, maj, min) ==
  IF valid /\ Floor(maj, min) \in {"2.0", "2.1"} THEN "held" ELSE "direct"
\* version presented by a node (presentation of type 17/18 is rejected below 1.4 / when invalid);
\* set/req tables are the same from 2.0 on
NodeClass(valid, maj, min) ==
  IF ~valid \/ ~Ge(<<maj, min>>, <<1, 4>>) THEN "rejected"
  ELSE LET f == Floor(maj, min) IN IF f \in {"2.0", "2.1", "2.2"} THEN "2.0" ELSE f
\* version assigned to a node that was known with another version before (re-presentation of an accepted frame, restored
\* state, application code): the rule applies to the new value alone - invalid or older than 1.4 means 1.4
NodeAttrClass(valid, maj, min) ==
  IF ~valid \/ ~Ge(<<maj, min>>, <<1, 4>>) THEN "1.4"
  ELSE LET f == Floor(maj, min) IN IF f \in {"2.0", "2.1", "2.2"} THEN "2.0" ELSE f

FloorMonotone == \A a \in 0..3, b \in 0..12, c \in 0..3, d \in 0..12 :
   Ge(<<c, d>>, <<a, b>>) => LET x == Floor(a, b)  y == Floor(c, d) IN
       \E i, j \in 1..5 : Name(i) = x /\ Name(j) = y /\ i <= j
FloorExamples == /\ Floor(2, 0) = "2.0" /\ Floor(2, 3) = "2.2" /\ Floor(1, 10) = "1.5" /\ Floor(1, 3) = "1.4"
                 /\ Floor(3, 0) = "2.2" /\ Floor(0, 9) = "1.4" /\ Floor(2, 1) = "2.1" /\ Floor(1, 4) = "1.4"
=============================================================================
