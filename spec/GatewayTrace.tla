--------------------------- MODULE GatewayTrace ---------------------------
(***************************************************************************)
(* Validates traces recorded from the real Gateway objects against         *)
(* Gateway.tla (batch: env TRACE_FILE is ndjson, one trace per line, all   *)
(* of the same GwVer / Flavour).  Each event names one Gateway action with *)
(* its arguments and carries the observed step outputs and the projected   *)
(* state after the step; freedom points are chosen from candidates found   *)
(* in the observation.  Proj selects which components this check compares  *)
(* (a refinement mapping per property); Diag = TRUE turns every comparison *)
(* into a printed diagnosis so that the failing clause can be named.       *)
(***************************************************************************)
EXTENDS Gateway, Json, IOUtils, TLCExt

CONSTANTS Proj, Diag

Traces == ndJsonDeserialize(IOEnv.TRACE_FILE)
ASSUME \A t \in 1..Len(Traces) : TLCSet(t, 0)

VARIABLES tid, pos
tvars == <<vars, tid, pos>>

Ev == Traces[tid].ev[pos]

\* ---- spec state -> the canonical nested-sequence form used in the records --
FnSeq(f, conv(_, _)) == LET ks == SetToSortSeq(DOMAIN f, <) IN [i \in 1..Len(ks) |-> conv(ks[i], f[ks[i]])]
PairSeq(f) == FnSeq(f, LAMBDA k, v : <<k, v>>)
CmdSeq(m) == <<m.n, m.c, m.cmd, m.ack, m.sub, m.p>>
CmdsSeq(ms) == [i \in 1..Len(ms) |-> CmdSeq(ms[i])]
KidSeq(c, k) == <<c, k.ptype, k.desc, PairSeq(k.vals)>>
TreeSeq(nd) == FnSeq(nd, LAMBDA n, s : <<n, s.ptype, s.pver, s.batt, s.sname, s.sver, s.hb, FnSeq(s.kids, KidSeq)>>)
TransSeq(nd) == FnSeq(nd, LAMBDA n, s : <<n, s.reboot, FnSeq(s.desired, LAMBDA c, d : <<c, PairSeq(d)>>), CmdsSeq(s.hold)>>)
SessSeq(o) == FnSeq(o.sess, LAMBDA n, s : <<n, s.st, s.fw[1], s.fw[2]>>)
JobSeq(js) == [i \in 1..Len(js) |-> IF js[i].k = "L" THEN <<"L", js[i].l.id>> ELSE <<"E", CmdSeq(js[i].m)>>]

\* ---- records -> spec values -------------------------------------------------
CmdOf(s) == Cmd(s[1], s[2], s[3], s[4], s[5], s[6])
CmdsOf(ss) == [i \in 1..Len(ss) |-> CmdOf(ss[i])]
EJobCmds(js) == CmdsOf(SelectSeq(js, LAMBDA j : j[1] = "E"))
EJobCmdsOf(js) == LET ej == SelectSeq(js, LAMBDA j : j[1] = "E") IN [i \in 1..Len(ej) |-> CmdOf(ej[i][2])]
SufSet(s) == {SubSeq(s, k, Len(s)) : k \in 1..(Len(s) + 1)}
\* suffixes with the last element dropped too (the reply of logic() follows the burst in the async flavour)
InfSet(s) == UNION {SufSet(SubSeq(s, 1, k)) : k \in 0..Len(s)}

IdCands(e) ==
  LET cs == {e.out[i] : i \in 1..Len(e.out)} \cup
            {e.st.jobs[i][2] : i \in {j \in 1..Len(e.st.jobs) : e.st.jobs[j][1] = "E"}} \cup
            UNION {{t[4][i] : i \in 1..Len(t[4])} : t \in {e.st.trans[i] : i \in 1..Len(e.st.trans)}}
      toks == {c[6] : c \in {x \in cs : x[3] = INTERNAL /\ x[5] = I_ID_RESP}}
  IN {0} \cup {k \in 1..MaxId : ToString(k) \in toks}
OrdCands(e) == InfSet(CmdsOf(e.out)) \cup SufSet(EJobCmdsOf(e.st.jobs))
IsLine(l, cmd, sub) == l.wf /\ l.h.cmd = cmd /\ l.h.sub = sub
ChoiceSet(e, l) == [id  : IF IsLine(l, INTERNAL, I_ID_REQ) THEN IdCands(e) ELSE {0},
                  ord : IF IsLine(l, INTERNAL, WakeKind) THEN OrdCands(e) ELSE {<<>>},
                  ack : IF l.wf /\ l.h.cmd = REQ THEN {0, 1} ELSE {0}]

\* ---- comparison clauses -----------------------------------------------------
Clause(name, ok) == ok \/ (Diag /\ PrintT(<<"CLAUSE", tid, pos, name>>))
InP(x) == x \in Proj

\* callbacks: exactly the prescribed ones, except where the property leaves the count open
CbMatch(e, optLine) ==   \* optLine: <<>> or <<the line whose callback is optional>>
  IF optLine # <<>> THEN Len(e.cb) <= 1 /\ \A i \in 1..Len(e.cb) : SubSeq(e.cb[i], 1, 6) = CmdSeq(CmdOfLine(optLine[1]))
  ELSE /\ Len(e.cb) = Len(cb')
       /\ \A i \in 1..Len(cb') : SubSeq(e.cb[i], 1, 6) = CmdSeq(cb'[i])
CbSeen(e) == \A i \in 1..Len(e.cb) : e.cb[i][7] = 1

\* C05: every command handed to the transport is a valid line for the configured version
OutValid(c, pd) ==
  LET h == [n |-> c[1], c |-> c[2], cmd |-> c[3], ack |-> c[4], sub |-> c[5]] IN
  IF c[3] = STREAM \/ c[6] = NOW THEN HeaderOk(GwVer, h) /\ c[6] # "~~badstream" /\ c[6] # "~~noncanonical"
  ELSE Accept(GwVer, h, pd)

Match(e, optLine) ==
  /\ Clause("observable", ~e.unobservable)      \* the driver could read the library's state after the step
  /\ Clause("reentry", ~e.hang)                 \* a controller call made from inside the event callback came back
  /\ Clause("exc",     InP("exc")     => e.exc = exc')
  /\ Clause("out",     InP("out")     => e.out = CmdsSeq(out'))
  \* the link: what reaches the connection in a step is what was handed to transport.send if the link is up; with the link
  \* down it is dropped - nothing is kept for later (Gateway.tla has no queue of unsent commands to retry from)
  /\ Clause("wire",    InP("out") /\ e.haswire => e.wire = (IF e.linkup THEN e.out ELSE <<>>))
  /\ Clause("outvalid", InP("out") /\ e.a # "Send" => \A i \in 1..Len(e.out) : OutValid(e.out[i], e.outp[i]))
  /\ Clause("cb",      InP("cb")      => CbMatch(e, optLine))
  /\ Clause("cbseen",  InP("cb")      => CbSeen(e))
  /\ Clause("tree",    InP("tree")    => e.st.tree = TreeSeq(nodes'))
  /\ Clause("trans",   InP("trans")   => e.st.trans = TransSeq(nodes'))
  /\ Clause("sess",    InP("ota")     => e.st.sess = SessSeq(ota'))
  /\ Clause("fw",      InP("ota")     => {<<e.st.fw[i][1], e.st.fw[i][2]>> : i \in 1..Len(e.st.fw)} = ota'.fw)
  /\ Clause("jobs",    InP("jobs")    => e.st.jobs = JobSeq(jobs'))
  /\ Clause("metric",  InP("tree")    => e.st.metric = metric')
  /\ Clause("disk",    InP("disk") /\ e.hasdisk => /\ e.disk.file = disk'.file
                                                   /\ e.disk.tree = TreeSeq(disk'.nodes))
  \* the state must be marked unsaved whenever a save would change the file
  /\ Clause("dirty",   InP("dirty") /\ pers' => (NeedsSave' => e.st.dirty))
  /\ Clause("raised",  InP("exc")     => ~e.raised)
  /\ Clause("alive",   InP("exc")     => e.alive)

LineOptCb(l) == IF Accepted(l) /\ CbOptional(l) THEN <<l>> ELSE <<>>

\* the reaction of the harness' event callback during this step, if any: update_fw for the presented node (kind "fw"), or
\* set_child_value for the node and child of the announced SET message (kind "set"; e.rx.exc is what that call did to its caller)
Rx(e) == [on |-> e.rx.on, kind |-> e.rx.kind, n |-> e.rx.n, f |-> <<e.rx.f[1], e.rx.f[2]>>, t |-> e.rx.t, v |-> e.rx.v, a |-> e.rx.a]
RxExcOk(e, l) ==
  (e.rx.on /\ e.rx.kind = "set" /\ Accepted(l)
     /\ \/ l.h.cmd = SET /\ IsKnown(nodes, l.h.n, l.h.c)
        \/ l.h.cmd = PRES /\ l.h.c # SYSCHILD /\ l.h.n \in DOMAIN nodes /\ l.h.c \notin DOMAIN nodes[l.h.n].kids)
     => Clause("rxexc", e.rx.exc = ReactSetExc(nodes, ota, l, Rx(e)))

\* ---- one trace event = one Gateway action -----------------------------------
StepAction(e) ==
  \/ /\ e.a = "Recv" /\ Flavour = "async"
     /\ \E ch \in ChoiceSet(e, e.l) : RecvAsyncR(e.l, ch, Rx(e))
     /\ Match(e, LineOptCb(e.l)) /\ RxExcOk(e, e.l)
  \/ /\ e.a = "Recv" /\ Flavour = "sync"
     /\ RecvSync(e.l)
     /\ Match(e, <<>>)
  \/ /\ e.a = "Pump"
     /\ jobs # <<>>
     /\ IF Head(jobs).k = "L"
        THEN (\E ch \in ChoiceSet(e, Head(jobs).l) : PumpR(ch, Rx(e))) /\ Match(e, LineOptCb(Head(jobs).l)) /\ RxExcOk(e, Head(jobs).l)
        ELSE Pump([id |-> 0, ord |-> <<>>, ack |-> 0]) /\ Match(e, <<>>)
  \/ /\ e.a = "SetChild"
     /\ CSetChild(e.n, e.c, e.t, e.v, e.ack)
     /\ Match(e, <<>>)
  \/ /\ e.a = "UpdateFw" /\ ~e.bad
     /\ CUpdateFw({e.nids[i] : i \in 1..Len(e.nids)}, <<e.f[1], e.f[2]>>, e.img)
     /\ Match(e, <<>>)
  \/ /\ e.a = "UpdateFw" /\ e.bad
     /\ CUpdateFwBad
     /\ Match(e, <<>>)
  \/ /\ e.a = "Send"
     /\ CSend /\ out' = CmdsOf(e.out)          \* exactly the caller's string, once
     /\ Clause("sendonce", Len(e.out) = 1)
     /\ Match(e, <<>>)
  \/ /\ e.a = "Metric" /\ CMetric(e.b) /\ Match(e, <<>>)
  \/ /\ e.a = "StartPersist" /\ StartPersist /\ Match(e, <<>>)
  \/ /\ e.a = "Tick" /\ Tick /\ Match(e, <<>>)
  \/ /\ e.a = "StopRestart" /\ StopRestart /\ Match(e, <<>>)
  \/ /\ e.a = "StopSame" /\ StopSame /\ Match(e, <<>>)
  \* C11: the live state saved as JSON and as pickle (scratch files) and loaded into fresh gateways
  \/ /\ e.a = "Snapshot" /\ UNCHANGED vars
     /\ Clause("rtjson",   e.json.tree = TreeSeq(Persisted(nodes)))
     /\ Clause("rtpickle", e.pickle.tree = TreeSeq(Persisted(nodes)))
     /\ Clause("rttransient", /\ e.json.trans = TransSeq(Persisted(nodes))
                              /\ e.pickle.trans = TransSeq(Persisted(nodes)))
     /\ Clause("rtraised", ~e.raised)

TInit == Init /\ tid \in 1..Len(Traces) /\ pos = 1
TNext == /\ pos <= Len(Traces[tid].ev)
         /\ pos' = pos + 1 /\ tid' = tid
         /\ StepAction(Ev)
TSpec == TInit /\ [][TNext]_tvars

\* longest matched prefix per trace; verdict in the postcondition
Track == TLCSet(tid, IF TLCGet(tid) < pos THEN pos ELSE TLCGet(tid))
Rejected == {t \in 1..Len(Traces) : TLCGet(t) # Len(Traces[t].ev) + 1}
Post == PrintT(<<"REJECTED", [t \in Rejected |-> TLCGet(t)]>>)
TypeOK == TreeDiscipline /\ OtaDiscipline
=============================================================================
