--------------------------------- MODULE Ota ---------------------------------
(***************************************************************************)
(* What an OTA firmware server must serve (property C09), independent of   *)
(* the library: padding to 128-byte pages with 0xFF, 16-byte blocks,       *)
(* little-endian 16-bit header words, CRC-16/MODBUS (reflected polynomial  *)
(* 0xA001, initial value 0xFFFF, no final xor) defined bit by bit.         *)
(***************************************************************************)
EXTENDS Integers, Sequences, SequencesExt, Bitwise, FiniteSets

BLOCK == 16
PAGE  == 128

CrcStep(c) == IF c % 2 = 1 THEN shiftR(c, 1) ^^ 40961 ELSE shiftR(c, 1)
CrcByte(c, b) == CrcStep(CrcStep(CrcStep(CrcStep(CrcStep(CrcStep(CrcStep(CrcStep(c ^^ b))))))))
Crc16Modbus(bytes) == FoldLeft(CrcByte, 65535, bytes)

\* the padding the property allows: only 0xFF, at most one page, total a multiple of a page
PadOk(img, padded) ==
  /\ Len(padded) >= Len(img) /\ Len(padded) - Len(img) <= PAGE
  /\ Len(padded) % PAGE = 0
  /\ SubSeq(padded, 1, Len(img)) = img
  /\ \A i \in (Len(img) + 1)..Len(padded) : padded[i] = 255
\* the padding the library chooses (a full extra page when already aligned)
PadLen(n) == PAGE - (n % PAGE)
Pad(img) == img \o [i \in 1..PadLen(Len(img)) |-> 255]
PadTo(img, total) == img \o [i \in 1..(total - Len(img)) |-> 255]

Blocks(padded) == Len(padded) \div BLOCK
Block(padded, i) == SubSeq(padded, i * BLOCK + 1, i * BLOCK + BLOCK)     \* i from 0
RECURSIVE Concat(_, _)
Concat(padded, n) == IF n = 0 THEN <<>> ELSE Concat(padded, n - 1) \o Block(padded, n - 1)

\* config response [type, version, blocks, crc] advertises image img
ConfigOk(img, ft, fv, cfg) ==
  /\ cfg[1] = ft /\ cfg[2] = fv
  /\ cfg[3] * BLOCK >= Len(img) /\ cfg[3] * BLOCK - Len(img) <= PAGE /\ (cfg[3] * BLOCK) % PAGE = 0
  /\ cfg[4] = Crc16Modbus(PadTo(img, cfg[3] * BLOCK))
\* block response [type, version, index, data] answers request (ft, fv, idx) for an image advertised with `blocks`
BlockOk(img, blocks, ft, fv, idx, resp) ==
  /\ resp[1] = ft /\ resp[2] = fv /\ resp[3] = idx
  /\ idx < blocks => resp[4] = Block(PadTo(img, blocks * BLOCK), idx)
=============================================================================
