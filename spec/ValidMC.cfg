INIT Init
NEXT Next
INVARIANT AcceptedInRange
INVARIANT Child255OnlyForPIS
INVARIANT Child255Required
