INIT Init
NEXT Next
CONSTANT Tier = "thorough"
INVARIANT CanonicalFixpoint
INVARIANT RoundTrip
INVARIANT CopyExact
