INIT Init
NEXT Next
