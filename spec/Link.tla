--------------------------------- MODULE Link ---------------------------------
(***************************************************************************)
(* Connection supervision (property C20) for the four combinations         *)
(* Dev in {"serial","tcp"} x Fl in {"sync","async"}, on a discrete clock.  *)
(* R = reconnect timeout in ticks.                                         *)
(*                                                                         *)
(* System state: the live connection (0 = none), the connect loop          *)
(* ("idle" | "trying" | "dialing" | "sleeping" until wake), per-connection *)
(* callback                                                                *)
(* counters, the list of connect attempt times, and for TCP the watchdog   *)
(* (time of the last probe, time of the last answer).                      *)
(* Environment actions: connect attempt outcome, read error, orderly close *)
(* by the peer, write error on send, inbound data (incl. the answer to a   *)
(* version probe), clock ticks, stop().                                    *)
(***************************************************************************)
EXTENDS Integers, Sequences, FiniteSets, TLC

CONSTANTS Dev, Fl, R, MaxConn, MaxTime,
          Slack      \* the asyncio watchdog re-arms every R + Slack ticks (reconnect_timeout + 0.1 s, rounded up to ticks)

VARIABLES now, stopped, live, nconn, made, lost, lostexc, attempts, loop, wake,
          lastProbe, lastAnswer, probes, afterStop, eofPending, nextCheck,
          lastFail,   \* time at which the last failed connect attempt ended (the retry sleep starts there)
          orphans     \* devices that a dial in flight across stop() opened afterwards (must never become a link)
vars == <<now, stopped, live, nconn, made, lost, lostexc, attempts, loop, wake,
          lastProbe, lastAnswer, probes, afterStop, eofPending, nextCheck, lastFail, orphans>>

Init ==
  /\ now = 0 /\ stopped = FALSE /\ live = 0 /\ nconn = 0
  /\ made = [c \in 1..MaxConn |-> 0] /\ lost = [c \in 1..MaxConn |-> 0] /\ lostexc = [c \in 1..MaxConn |-> FALSE]
  /\ attempts = <<>> /\ loop = "idle" /\ wake = 0
  /\ lastProbe = 0 /\ lastAnswer = 0 /\ probes = 0 /\ afterStop = 0 /\ eofPending = FALSE /\ nextCheck = 0
  /\ lastFail = 0 /\ orphans = 0

\* start(): the connect loop begins with an attempt right away
Start == /\ loop = "idle" /\ ~stopped /\ live = 0 /\ nconn = 0 /\ attempts = <<>>
         /\ loop' = "trying"
         /\ UNCHANGED <<now, stopped, live, nconn, made, lost, lostexc, attempts, wake, lastProbe, lastAnswer, probes, afterStop, eofPending, nextCheck, lastFail, orphans>>

\* A connect attempt is a dial that begins (the attempt is counted, the device call is entered) and later
\* ends with the outcome the environment chooses.  Between the two the clock may move and stop() may be
\* called; a dial that ends after stop() must not become a link.
DialBegin ==
  /\ loop = "trying" /\ ~stopped /\ nconn < MaxConn
  /\ attempts' = Append(attempts, now) /\ loop' = "dialing"
  /\ UNCHANGED <<now, stopped, live, nconn, made, lost, lostexc, wake, lastProbe, lastAnswer, probes, afterStop, eofPending, nextCheck, lastFail, orphans>>
DialDue == Fl = "async" /\ Dev = "tcp" /\ loop = "dialing" /\ ~stopped /\ now >= attempts[Len(attempts)] + R
DialEnd(ok) ==
  /\ loop = "dialing"
  \* asyncio: stop() cancels the task of a reconnect, so a dial that is still answered after stop() can only be one of
  \* start()'s own loop (no connection was ever made); the threaded loops cannot recall a dial at all
  /\ (stopped /\ Fl = "async") => nconn = 0
  \* asyncio TCP: the dial is wrapped in wait_for(reconnect_timeout) - once that time is up it can only have failed
  /\ DialDue => ~ok
  /\ IF stopped
       THEN /\ loop' = "idle" /\ orphans' = (IF ok THEN orphans + 1 ELSE orphans)
            /\ UNCHANGED <<nconn, live, made, lastProbe, lastAnswer, wake, lastFail, nextCheck>>
       ELSE /\ orphans' = orphans
            /\ IF ok THEN /\ nconn' = nconn + 1 /\ live' = nconn + 1 /\ made' = [made EXCEPT ![nconn + 1] = @ + 1]
                          /\ loop' = "idle" /\ wake' = wake /\ lastFail' = lastFail
                          /\ lastProbe' = now /\ lastAnswer' = now
                    ELSE /\ UNCHANGED <<nconn, live, made, lastProbe, lastAnswer>>
                         /\ loop' = "sleeping" /\ wake' = now + R /\ lastFail' = now
            /\ nextCheck' = (IF ok THEN now + R + Slack ELSE nextCheck)     \* asyncio TCP: check_connection runs at connect, then every R + 0.1
  /\ UNCHANGED <<now, stopped, lost, lostexc, attempts, probes, afterStop, eofPending>>
\* the common case: the dial takes no time
\* (= DialBegin \cdot DialEnd(ok), written out)
Attempt(ok) ==
  /\ loop = "trying" /\ ~stopped /\ nconn < MaxConn
  /\ attempts' = Append(attempts, now)
  /\ IF ok THEN /\ nconn' = nconn + 1 /\ live' = nconn + 1 /\ made' = [made EXCEPT ![nconn + 1] = @ + 1]
                /\ loop' = "idle" /\ wake' = wake /\ lastFail' = lastFail
                /\ lastProbe' = now /\ lastAnswer' = now
          ELSE /\ UNCHANGED <<nconn, live, made, lastProbe, lastAnswer>>
               /\ loop' = "sleeping" /\ wake' = now + R /\ lastFail' = now
  /\ nextCheck' = (IF ok THEN now + R + Slack ELSE nextCheck)
  /\ UNCHANGED <<now, stopped, lost, lostexc, probes, afterStop, eofPending, orphans>>

\* the link is lost without the user having asked for it: one callback, then a reconnect at once
Lose(c, exc) ==
  /\ live' = 0 /\ lost' = [lost EXCEPT ![c] = @ + 1] /\ lostexc' = [lostexc EXCEPT ![c] = exc]
  /\ loop' = "trying"
ReadError == /\ live # 0 /\ ~stopped /\ Lose(live, TRUE)
             /\ UNCHANGED <<now, stopped, nconn, made, attempts, wake, lastProbe, lastAnswer, probes, afterStop, eofPending, nextCheck, lastFail, orphans>>
\* a failed write: send() closes the connection and asks for a reconnect; the closed
\* connection reports "lost" without error
WriteError == /\ live # 0 /\ ~stopped /\ \E x \in BOOLEAN : Lose(live, x)      \* the error argument of this callback is not prescribed
              /\ UNCHANGED <<now, stopped, nconn, made, attempts, wake, lastProbe, lastAnswer, probes, afterStop, eofPending, nextCheck, lastFail, orphans>>
\* orderly close by the peer.  asyncio: reported at once as a loss WITHOUT error;
\* threaded TCP: recv() returns b"" from now on - the watchdog has to notice; serial: n/a
PeerClose ==
  /\ live # 0 /\ ~stopped /\ ~eofPending /\ (Dev = "tcp" \/ Fl = "async")
  /\ IF Fl = "async" THEN Lose(live, FALSE) /\ eofPending' = eofPending
                     ELSE eofPending' = TRUE /\ UNCHANGED <<live, lost, lostexc, loop>>
  /\ UNCHANGED <<now, stopped, nconn, made, attempts, wake, lastProbe, lastAnswer, probes, afterStop, nextCheck, lastFail, orphans>>

\* TCP watchdog (check_connection): probe when more than R since the last probe; give up when more
\* than 2R since the last answer
\* threaded: check_connection runs in every iteration of the reader loop; asyncio: only when its timer fires
CheckTime == Fl = "sync" \/ now >= nextCheck
ProbeDue == Dev = "tcp" /\ live # 0 /\ CheckTime /\ now > lastProbe + R
DropDue  == Dev = "tcp" /\ live # 0 /\ CheckTime /\ now > lastAnswer + 2 * R
Tick(d) ==
  /\ d >= 1 /\ now + d <= MaxTime
  /\ now' = now + d
  /\ IF loop = "sleeping" /\ now + d >= wake THEN loop' = "trying" ELSE loop' = loop
  \* an asyncio check that finds nothing to do just re-arms its timer
  /\ nextCheck' = IF /\ Fl = "async" /\ Dev = "tcp" /\ live # 0 /\ now + d >= nextCheck
                      /\ ~(now + d > lastProbe + R) /\ ~(now + d > lastAnswer + 2 * R)
                   THEN now + d + R + Slack ELSE nextCheck
  /\ UNCHANGED <<stopped, live, nconn, made, lost, lostexc, attempts, wake, lastProbe, lastAnswer, probes, afterStop, eofPending, lastFail, orphans>>
Watchdog ==
  /\ ~stopped
  /\ IF DropDue THEN /\ (\E x \in BOOLEAN : Lose(live, x)) /\ lastAnswer' = now /\ UNCHANGED <<lastProbe, probes>> /\ eofPending' = FALSE
     ELSE IF ProbeDue THEN /\ probes' = probes + 1 /\ lastProbe' = now /\ UNCHANGED <<live, lost, lostexc, loop, lastAnswer, eofPending>>
     ELSE FALSE
  /\ nextCheck' = now + R + Slack
  /\ UNCHANGED <<now, stopped, nconn, made, attempts, wake, afterStop, lastFail, orphans>>
\* the gateway answers a probe (any I_VERSION message from it counts)
Answer == /\ Dev = "tcp" /\ live # 0 /\ ~stopped /\ ~eofPending /\ lastAnswer' = now
          /\ UNCHANGED <<now, stopped, live, nconn, made, lost, lostexc, attempts, loop, wake, lastProbe, probes, afterStop, eofPending, nextCheck, lastFail, orphans>>

\* stop(): disconnect (the closed connection reports "lost" without error, once), no reconnect, loops end
Stop ==
  /\ ~stopped /\ stopped' = TRUE
  /\ IF live # 0 THEN lost' = [lost EXCEPT ![live] = @ + 1] ELSE lost' = lost
  /\ live' = 0 /\ loop' = (IF loop = "dialing" THEN "dialing" ELSE "idle")     \* a dial in flight cannot be recalled
  /\ UNCHANGED <<now, nconn, made, lostexc, attempts, wake, lastProbe, lastAnswer, probes, afterStop, eofPending, nextCheck, lastFail, orphans>>

Next == Start \/ Attempt(TRUE) \/ Attempt(FALSE) \/ DialBegin \/ DialEnd(TRUE) \/ DialEnd(FALSE) \/ ReadError \/ WriteError \/ PeerClose
        \/ (\E d \in 1..(2 * R + 3) : Tick(d)) \/ Watchdog \/ Answer \/ Stop
\* the system is never late: whatever is due (an attempt, a probe, a drop) happens before the clock moves
Urgent == loop = "trying" \/ (~stopped /\ (DropDue \/ ProbeDue)) \/ DialDue
NextTimed == (Urgent /\ (Attempt(TRUE) \/ Attempt(FALSE) \/ DialBegin \/ Watchdog \/ Stop \/ (DialDue /\ DialEnd(FALSE))))
             \/ (~Urgent /\ Next)
Spec == Init /\ [][NextTimed]_vars

(***************************************************************************)
(* Properties.                                                             *)
(***************************************************************************)
MadeOncePerConnection == \A c \in 1..MaxConn : made[c] = (IF c <= nconn THEN 1 ELSE 0)
LostOncePerLostConnection == \A c \in 1..MaxConn : lost[c] = (IF c <= nconn /\ c # live THEN 1 ELSE 0)
AtMostOneLiveLink == live \in 0..nconn
\* after an unrequested loss a reconnect is under way until it succeeds
ReconnectAfterLoss == (~stopped /\ live = 0 /\ nconn > 0) => loop \in {"trying", "dialing", "sleeping"}
\* retries are R apart: a failed attempt is followed by a sleep of exactly R, and (Urgent) the next
\* attempt is made as soon as the clock reaches the wake-up time
RetryEveryR == loop = "sleeping" => attempts # <<>> /\ lastFail >= attempts[Len(attempts)] /\ wake = lastFail + R /\ now < wake
QuietAfterStop == stopped => loop \in {"idle", "dialing"} /\ live = 0 /\ afterStop = 0
\* whatever a dial in flight across stop() brings back is discarded: no callback, no link
StoppedMeansNoNewLink == [][stopped => (made' = made /\ nconn' = nconn /\ live' = 0)]_vars
\* TCP: an answered link is never dropped; a silent one is dropped within about 2R
AnsweredNeverDropped ==
  [][(Dev = "tcp" /\ live # 0 /\ live' = 0 /\ ~stopped' /\ lost'[live] = lost[live] + 1 /\ lostexc'[live] /\ DropDue)
       => now > lastAnswer + 2 * R]_vars
\* (threaded: at the first tick past 2R; asyncio: at the first check after that, at most R + 1 later)
SilentDroppedInTime == (Dev = "tcp" /\ live # 0 /\ ~stopped) => now <= lastAnswer + 2 * R + (R + Slack) + 2 * R + 3
=============================================================================
