SPECIFICATION Spec
CONSTANTS Dev = "tcp"
 Fl = "async"
 R = 3
 Slack = 1
 MaxConn = 2
 MaxTime = 11
INVARIANT MadeOncePerConnection
INVARIANT LostOncePerLostConnection
INVARIANT AtMostOneLiveLink
INVARIANT ReconnectAfterLoss
INVARIANT RetryEveryR
INVARIANT QuietAfterStop
INVARIANT SilentDroppedInTime
PROPERTY AnsweredNeverDropped
CHECK_DEADLOCK FALSE
