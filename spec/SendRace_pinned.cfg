SPECIFICATION Spec
CONSTANTS NMsgs = 3
 Snapshot = FALSE
 ClearFirst = FALSE
 LostExc = TRUE
 WithUser = TRUE
 WithLost = TRUE
 WithStop = FALSE
 WithConnector = TRUE
 MaxConn = 3
INVARIANT NoExceptionIntoPump
INVARIANT AtMostOnce
INVARIANT QueueOrder
INVARIANT ExactlyOnceOrDropped
CHECK_DEADLOCK FALSE
