----------------------------- MODULE PersistTrace -----------------------------
(* Validates recorded file-system operation traces of the real save / load code  *)
(* (run on the fault-injecting shim) against Persist.tla.  ndjson, one trace per  *)
(* line: {"ev": [{"a": action, ...observations...}, ...]}.                         *)
EXTENDS Persist, Json, IOUtils, TLCExt, SequencesExt
CONSTANT Diag
Traces == ndJsonDeserialize(IOEnv.TRACE_FILE)
ASSUME \A t \in 1..Len(Traces) : TLCSet(t, 0)
VARIABLES tid, pos
tvars == <<vars, tid, pos>>
Ev == Traces[tid].ev[pos]
Clause(name, ok) == ok \/ (Diag /\ PrintT(<<"CLAUSE", tid, pos, name>>))
Exists(p) == fs'[p].vol # ABSENT
\* which paths exist after the step, the dirty flag, whether the schedule is armed
Obs(e) ==
  \* (the temp file is never read by a load: its existence is not compared - with a symbolic link a stale one may
  \* even sit in another directory)
  /\ Clause("files", e.files.main = Exists("main") /\ e.files.bak = Exists("bak"))
  /\ Clause("dirty", e.dirty = dirty')
  /\ Clause("armed", e.hassched => (e.armed = (sched' = "armed")))
StepAction(e) ==
  \/ e.a = "Mutate"     /\ Mutate /\ cur' = e.v /\ (e.noticed = (sv.pc = "write" /\ sv'.pc = "idle")) /\ Obs(e)
  \/ e.a = "SaveBegin"  /\ SaveBegin /\ Clause("skipped", e.skipped = (sv'.pc = "idle")) /\ Obs(e)
  \/ e.a = "Open"       /\ Open /\ Obs(e)
  \/ e.a = "Write"      /\ Write /\ Obs(e)
  \/ e.a = "Flush"      /\ Flush /\ Obs(e)
  \/ e.a = "Fsync"      /\ Fsync /\ Obs(e)
  \/ e.a = "Close"      /\ Close /\ Obs(e)
  \/ e.a = "Ren1"       /\ Ren1 /\ Obs(e)
  \/ e.a = "Ren2"       /\ Ren2 /\ Obs(e)
  \/ e.a = "Rm"         /\ Rm /\ Obs(e)
  \/ e.a = "Clear"      /\ Clear /\ Obs(e)
  \/ e.a = "Fail"       /\ OpFails /\ Obs(e)
  \/ e.a = "Denied"     /\ Denied /\ Obs(e)
  \/ e.a = "Crash"      /\ Crash(e.lose) /\ Obs(e)
  \/ e.a = "StartUp"    /\ StartUp /\ Clause("loaded", e.loaded = cur') /\ Clause("raised", ~e.raised) /\ Obs(e)
  \/ e.a = "StartSchedule" /\ StartSchedule /\ Obs(e)
  \/ e.a = "TimerFires" /\ TimerFires /\ Obs(e)
TInit == Init /\ tid \in 1..Len(Traces) /\ pos = 1
TNext == /\ pos <= Len(Traces[tid].ev) /\ pos' = pos + 1 /\ tid' = tid /\ StepAction(Ev)
TSpec == TInit /\ [][TNext]_tvars
Track == TLCSet(tid, IF TLCGet(tid) < pos THEN pos ELSE TLCGet(tid))
Rejected == {t \in 1..Len(Traces) : TLCGet(t) # Len(Traces[t].ev) + 1}
Post == PrintT(<<"REJECTED", [t \in Rejected |-> TLCGet(t)]>>)
=============================================================================
