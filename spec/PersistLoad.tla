----------------------------- MODULE PersistLoad -----------------------------
(* C13: start-up survives damaged persistence files.                            *)
(* (1) TLC checks on Persist.tla's LoadRes that for every combination of main /  *)
(*     backup content class the load is total and whole.                         *)
(* (2) Recorded loads of the real code (env TRACE_FILE: {"R": [[mainClass,       *)
(*     bakClass, raised(0/1), loadedVersion, mainAfter(0/1), bakAfter(0/1)], ...]}*)
(*     are compared with LoadRes.  Classes: -1 absent, -2 bad (empty / truncated *)
(*     at any byte / zero-filled), k >= 1 intact file of state k.                *)
EXTENDS Persist, Json, IOUtils, TLCExt
T == JsonDeserialize(IOEnv.TRACE_FILE)
Classes == {ABSENT, BAD, 1, 2}
LoadTotalAndWhole ==
  \A m \in Classes, b \in Classes :
     LET r == LoadRes([main |-> m, bak |-> b, tmp |-> ABSENT]) IN
       /\ r.v \in {0, 1, 2}
       /\ (IsSnap(m) => r.v = m)                         \* an intact main file wins
       /\ (~IsSnap(m) /\ IsSnap(b) => r.v = b)           \* else an intact backup
       /\ (~IsSnap(m) /\ ~IsSnap(b) => r.v = 0)          \* else the empty network
ASSUME LoadTotalAndWhole
RecOk(r) ==
  LET x == LoadRes([main |-> r[1], bak |-> r[2], tmp |-> ABSENT]) IN
    /\ r[3] = 0                       \* never raises because of file content
    /\ r[4] = x.v                     \* one complete saved state or empty, never a partial merge
BadR == {i \in 1..Len(T.R) : ~RecOk(T.R[i])}
ASSUME PrintT(<<"BADR", BadR>>)
ASSUME PrintT(<<"COUNT", Len(T.R)>>)
=============================================================================
