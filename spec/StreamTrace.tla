------------------------------ MODULE StreamTrace ------------------------------
(* C19 conformance records (env TRACE_FILE):                                        *)
(* {"F": [[byteClasses, observedLineIds, referenceLineIds], ...]    framing          *)
(*  "E": [[asyncOut, syncRefOut, syncSchedOut, stateEqRef, stateEqSched, explained], ...]} flavours *)
(* where *Out are sequences of command tuples and explained = 1 when the only        *)
(* difference between asyncOut and syncSchedOut is the position of handler-queued    *)
(* jobs (the known finding).                                                          *)
EXTENDS Integers, Sequences, FiniteSets, Json, IOUtils, TLC, TLCExt
T == JsonDeserialize(IOEnv.TRACE_FILE)
RECURSIVE NLines(_)
NLines(s) == Cardinality({i \in 1..Len(s) : s[i] = "n"})
FOk(r) == r[2] = r[3] /\ Len(r[3]) = NLines(r[1])
Count(s, x) == Cardinality({i \in 1..Len(s) : s[i] = x})
SameBag(s, t) == Len(s) = Len(t) /\ \A i \in 1..Len(s) : Count(s, s[i]) = Count(t, s[i])
\* hard requirements: state agreement, multiset agreement, sequence agreement on the reference schedule
EOk(r) == /\ r[1] = r[2] /\ r[4] = 1 /\ r[5] = 1 /\ SameBag(r[1], r[3])
\* the order under an arbitrary pump schedule: equal, or explained by the known finding
EOrder(r) == r[1] = r[3] \/ r[6] = 1
BadF == {i \in 1..Len(T.F) : ~FOk(T.F[i])}
BadE == {i \in 1..Len(T.E) : ~EOk(T.E[i])}
BadO == {i \in 1..Len(T.E) : ~EOrder(T.E[i])}
Known == {i \in 1..Len(T.E) : T.E[i][1] # T.E[i][3] /\ T.E[i][6] = 1}
ASSUME PrintT(<<"BADF", BadF>>)
ASSUME PrintT(<<"BADE", BadE>>)
ASSUME PrintT(<<"BADO", BadO>>)
ASSUME PrintT(<<"KNOWN", Known>>)
VARIABLE x
Init == x = 0
Next == UNCHANGED x
=============================================================================
