------------------------------ MODULE WireTrace ------------------------------
(* Conformance of recorded codec executions with Wire.tla (env TRACE_FILE).     *)
(* {"D": [[lineSyms, ok(0/1), h(5 ints), payloadSyms, reencodedSyms], ...],      *)
(*  "E": [[h, payloadSyms, ok(0/1), lineSyms, redecodedOk, redecodedH, redecodedP], ...], *)
(*  "C": [[h, payloadSyms, replKeys, replVals, ok, h', p'], ...]}                *)
EXTENDS Wire, Json, IOUtils, TLC, TLCExt
T == JsonDeserialize(IOEnv.TRACE_FILE)
DOk(r) == LET d == Decode(r[1]) IN
   IF ~d.ok THEN r[2] = 0
   ELSE /\ r[2] = 1 /\ r[3] = d.h /\ r[4] = d.p
        /\ r[5] = Encode(d)                    \* canonical re-encoding
        /\ Canonical(r[5], d)
EOk(r) == LET m == [ok |-> TRUE, h |-> r[1], p |-> r[2]] IN
   /\ r[3] = 1 /\ r[4] = Encode(m)
   /\ Carriable(r[2]) => r[5] = 1 /\ r[6] = r[1] /\ r[7] = r[2]      \* round trip
COk(r) == LET m == [ok |-> TRUE, h |-> r[1], p |-> r[2]]
              repl == [k \in {r[3][i] : i \in 1..Len(r[3])} |->
                         r[4][CHOOSE i \in 1..Len(r[3]) : r[3][i] = k]]
              c == Copy(m, repl) IN
   /\ c.ok /\ r[5] = 1 /\ r[6] = c.h /\ r[7] = c.p
   /\ \A k \in 1..5 : k \notin DOMAIN repl => r[6][k] = r[1][k]        \* untouched fields equal the original
   /\ 6 \notin DOMAIN repl => r[7] = r[2]
BadD == {i \in 1..Len(T.D) : ~DOk(T.D[i])}
BadE == {i \in 1..Len(T.E) : ~EOk(T.E[i])}
BadC == {i \in 1..Len(T.C) : ~COk(T.C[i])}
ASSUME PrintT(<<"BADD", BadD>>)
ASSUME PrintT(<<"BADE", BadE>>)
ASSUME PrintT(<<"BADC", BadC>>)
ASSUME PrintT(<<"COUNT", Len(T.D), Len(T.E), Len(T.C)>>)
VARIABLE x
Init == x = 0
Next == UNCHANGED x
=============================================================================
