----------------------------- MODULE GatewayMC -----------------------------
(***************************************************************************)
(* Bounded exhaustive exploration of Gateway.tla over a small CONCRETE     *)
(* alphabet (env ALPHABET_FILE, written by the harness with the same lexer *)
(* the traces use: real line texts, real controller calls), with the       *)
(* listed properties as invariants / action properties.  Because the       *)
(* alphabet is concrete, every behaviour TLC generates (-simulate) can be  *)
(* replayed verbatim into the real Gateway (spec -> code direction).       *)
(***************************************************************************)
EXTENDS Gateway, Json, IOUtils, TLCExt

CONSTANTS MaxJobs,      \* bound on the job queue (sync flavour)
          MaxDepth,     \* bound on behaviour length
          WithPersist,  \* explore StartPersist / Tick / StopRestart
          WithReact     \* explore an event callback that answers a SET report with one of the alphabet's set_child_value calls

A == JsonDeserialize(IOEnv.ALPHABET_FILE)
Lines == A.lines          \* sequence of line records
Calls == A.calls          \* sequence of controller-call records
Toks  == A.toks           \* sequence of <<token, descriptor>> for every token that can be emitted

VARIABLE last             \* label of the last action (for replay and for the action properties)
mcvars == <<vars, last>>

\* ---- choices explored by the model ------------------------------------------
MCChoices(nd, iss, l) ==
  [id  : IF l.wf /\ l.h.cmd = INTERNAL /\ l.h.sub = I_ID_REQ THEN FreeIds(nd, iss) \cup {0} ELSE {0},
   ord : IF l.wf /\ l.h.cmd = INTERNAL /\ l.h.sub = WakeKind /\ l.h.n \in DOMAIN nd
         THEN SetToSeqs(BurstSet(nd, l.h.n)) ELSE {<<>>},
   ack : {IF l.wf THEN l.h.ack ELSE 0}]

\* re-entry: the application's callback, while a SET report of node n / child c is being announced, makes one of the alphabet's
\* set_child_value calls for that node and child; while a PRESENTATION is being announced, one of the alphabet's image-less
\* update_fw calls, for the presenting node (0 = it does not call back)
ReactIdx(l) == IF WithReact /\ l.wf /\ l.h.cmd = SET
               THEN {0} \cup {k \in 1..Len(Calls) : Calls[k].a = "SetChild" /\ Calls[k].n = l.h.n /\ Calls[k].c = l.h.c}
               ELSE IF WithReact /\ l.wf /\ l.h.cmd = PRES
               THEN {0} \cup {k \in 1..Len(Calls) : Calls[k].a = "UpdateFw" /\ ~Calls[k].img}
                        \cup {k \in 1..Len(Calls) : Calls[k].a = "SetChild" /\ Calls[k].n = l.h.n /\ Calls[k].c = l.h.c}
               ELSE {0}
RxOf(k, l) == IF k = 0 THEN NoReact
              ELSE IF Calls[k].a = "SetChild"
              THEN [on |-> TRUE, kind |-> "set", n |-> 0, f |-> <<0, 0>>, t |-> Calls[k].t, v |-> Calls[k].v, a |-> Calls[k].ack]
              ELSE [on |-> TRUE, kind |-> "fw", n |-> l.h.n, f |-> <<Calls[k].f[1], Calls[k].f[2]>>, t |-> 0, v |-> 0, a |-> 0]

MCInit == Init /\ last = [a |-> "Init", i |-> 0, r |-> 0]

\* after a stop the new gateway object first reloads the file (start_persistence) - a restart
\* that never loads has no memory by design and is not what C06 / C14 talk about
MCNext ==
  IF last.a = "StopRestart" THEN StartPersist /\ last' = [a |-> "StartPersist", i |-> 0, r |-> 0] ELSE
  \/ \E i \in 1..Len(Lines) :
       \/ /\ Flavour = "async"
          /\ \E ch \in MCChoices(nodes, issued, Lines[i]), k \in ReactIdx(Lines[i]) :
                /\ RecvAsyncR(Lines[i], ch, RxOf(k, Lines[i]))
                /\ last' = [a |-> "Recv", i |-> i, r |-> k]
       \/ /\ Flavour = "sync" /\ Len(jobs) < MaxJobs
          /\ RecvSync(Lines[i])
          /\ last' = [a |-> "Recv", i |-> i, r |-> 0]
  \/ /\ Flavour = "sync" /\ jobs # <<>>
     /\ IF Head(jobs).k = "L"
        THEN \E ch \in MCChoices(nodes, issued, Head(jobs).l), k \in ReactIdx(Head(jobs).l) :
                /\ PumpR(ch, RxOf(k, Head(jobs).l))
                /\ last' = [a |-> "PumpL", i |-> Head(jobs).l.id, r |-> k]
        ELSE /\ Pump([id |-> 0, ord |-> <<>>, ack |-> 0])
             /\ last' = [a |-> "PumpE", i |-> 0, r |-> 0]
  \/ \E i \in 1..Len(Calls) :
       LET c == Calls[i] IN
       /\ \/ c.a = "SetChild" /\ CSetChild(c.n, c.c, c.t, c.v, c.ack) /\ (Flavour = "sync" => Len(jobs) < MaxJobs)
          \/ c.a = "UpdateFw" /\ CUpdateFw({c.nids[k] : k \in 1..Len(c.nids)}, <<c.f[1], c.f[2]>>, c.img)
          \/ c.a = "Metric" /\ CMetric(c.b)
       /\ last' = [a |-> "Call", i |-> i, r |-> 0]
  \/ WithPersist /\ StartPersist /\ last' = [a |-> "StartPersist", i |-> 0, r |-> 0]
  \/ WithPersist /\ Tick /\ last' = [a |-> "Tick", i |-> 0, r |-> 0]
  \/ WithPersist /\ pers /\ StopRestart /\ last' = [a |-> "StopRestart", i |-> 0, r |-> 0]

MCSpec == MCInit /\ [][MCNext]_mcvars
Bound == TLCGet("level") <= MaxDepth

\* ---- helpers for the properties -----------------------------------------------
TokDesc(tok) == LET k == CHOOSE i \in 1..Len(Toks) : Toks[i][1] = tok IN Toks[k][2]
KnownTok(tok) == \E i \in 1..Len(Toks) : Toks[i][1] = tok
IsStreamTok(m) == m.cmd = STREAM
\* a command the gateway emits is a valid line for the configured version
ValidCmd(m) ==
  IF m.cmd = STREAM THEN HeaderOk(GwVer, [n |-> m.n, c |-> m.c, cmd |-> m.cmd, ack |-> m.ack, sub |-> m.sub])
  ELSE IF m.p = NOW THEN HeaderOk(GwVer, [n |-> m.n, c |-> m.c, cmd |-> m.cmd, ack |-> m.ack, sub |-> m.sub])
  ELSE KnownTok(m.p) /\ Accept(GwVer, [n |-> m.n, c |-> m.c, cmd |-> m.cmd, ack |-> m.ack, sub |-> m.sub], TokDesc(m.p))

\* the line processed by this step, as a sequence of 0 or 1 lines
StepLine == IF last'.a = "Recv" /\ Flavour = "async" THEN <<Lines[last'.i]>>
            ELSE IF last'.a = "PumpL" THEN <<Lines[last'.i]>> ELSE <<>>
IsLineStep == StepLine # <<>>
\* commands newly queued as jobs in this step (sync flavour)
NewJobCmds ==
  LET base == IF last'.a \in {"PumpL", "PumpE"} THEN Len(jobs) - 1 ELSE Len(jobs)
      nj   == SubSeq(jobs', base + 1, Len(jobs'))
      ej   == SelectSeq(nj, LAMBDA j : j.k = "E")
  IN [i \in 1..Len(ej) |-> ej[i].m]
\* commands that enter the outbound path in this step: sent at once, or queued for the pump.
\* (the emission of an already queued job by PumpE was judged when it was queued)
NewCmds == IF last'.a = "PumpE" THEN <<>> ELSE out' \o NewJobCmds
SeqSet(s) == {s[i] : i \in 1..Len(s)}
IsWakeStepOf(n) == /\ IsLineStep /\ Accepted(StepLine[1]) /\ StepLine[1].h.cmd = INTERNAL
                   /\ StepLine[1].h.sub = WakeKind /\ StepLine[1].h.n = n /\ n \in DOMAIN nodes

(***************************************************************************)
(* The listed properties on the model.                                     *)
(***************************************************************************)
\* C01: a malformed / invalid line has no effect at all
NoEffectOnBad ==
  [][IsLineStep /\ ~Accepted(StepLine[1]) =>
       /\ nodes' = nodes /\ ota' = ota /\ out' = <<>> /\ cb' = <<>> /\ NewJobCmds = <<>>
       /\ dirty' = dirty /\ issued' = issued]_mcvars

\* C04
NodesOnlyViaPresentationOrId ==
  [][(DOMAIN nodes' \ DOMAIN nodes) # {} =>
       \/ last'.a = "StartPersist"
       \/ /\ IsLineStep /\ Accepted(StepLine[1])
          /\ \/ StepLine[1].h.cmd = PRES /\ StepLine[1].h.c = SYSCHILD /\ DOMAIN nodes' \ DOMAIN nodes = {StepLine[1].h.n}
             \/ StepLine[1].h.cmd = INTERNAL /\ StepLine[1].h.sub = I_ID_REQ]_mcvars
ChildrenOnlyViaPresentation ==
  [][\A n \in DOMAIN nodes \cap DOMAIN nodes' :
       LET newc == DOMAIN nodes'[n].kids \ DOMAIN nodes[n].kids IN
       newc # {} => \/ last'.a = "StartPersist"
                    \/ /\ IsLineStep /\ Accepted(StepLine[1]) /\ StepLine[1].h.cmd = PRES
                       /\ StepLine[1].h.n = n /\ newc = {StepLine[1].h.c}]_mcvars
FirstPresentationWins ==
  [][last'.a \notin {"StopRestart", "StartPersist"} =>
       \A n \in DOMAIN nodes : n \in DOMAIN nodes' /\
          \A c \in DOMAIN nodes[n].kids : /\ c \in DOMAIN nodes'[n].kids
                                          /\ nodes'[n].kids[c].ptype = nodes[n].kids[c].ptype
                                          /\ nodes'[n].kids[c].desc = nodes[n].kids[c].desc]_mcvars
LastWriterWins ==
  [][IsLineStep /\ Accepted(StepLine[1]) /\ StepLine[1].h.cmd = SET /\ IsKnown(nodes, StepLine[1].h.n, StepLine[1].h.c)
       => nodes'[StepLine[1].h.n].kids[StepLine[1].h.c].vals[StepLine[1].h.sub] = StepLine[1].p.tok]_mcvars
Tree(nd) == [n \in DOMAIN nd |-> [nd[n] EXCEPT !.reboot = FALSE, !.desired = EmptyFn, !.hold = <<>>]]
OneCallbackPerChange ==
  [][IsLineStep =>
       /\ Len(cb') <= 1
       /\ (Tree(nodes') # Tree(nodes) => cb' = <<CmdOfLine(StepLine[1])>>)
       /\ (cb' # <<>> => Accepted(StepLine[1]) /\ cb' = <<CmdOfLine(StepLine[1])>>)]_mcvars
CallbackOnlyFromLines == [][~IsLineStep => cb' = <<>>]_mcvars

\* C05
EveryEmissionValid == \A i \in 1..Len(out) : ValidCmd(out[i])
HeldAndQueuedValid ==
  /\ \A n \in DOMAIN nodes : \A i \in 1..Len(nodes[n].hold) : ValidCmd(nodes[n].hold[i])
  /\ \A i \in 1..Len(jobs) : jobs[i].k = "E" => ValidCmd(jobs[i].m)
AddressedToRequesterOrBroadcast ==
  [][IsLineStep => \A m \in SeqSet(NewCmds) :
        \/ m.n = StepLine[1].h.n \/ m.n = BROADCAST
        \/ m.cmd = INTERNAL /\ m.sub = I_ID_RESP]_mcvars
\* (silence of the GATEWAY: a command the application issues from inside its callback in this step is the application's, r # 0)
SilenceUnlessPrescribed ==
  [][IsLineStep /\ Accepted(StepLine[1]) /\ IsKnown(nodes, StepLine[1].h.n, NOID) /\ last'.r = 0 =>
       LET l == StepLine[1] IN
       (\/ l.h.cmd = PRES
        \/ l.h.cmd = INTERNAL /\ l.h.sub \notin {I_ID_REQ, I_CONFIG, I_TIME, I_GW_READY, WakeKind}
        ) => NewCmds = <<>> /\ \A n \in DOMAIN nodes : nodes'[n].hold = nodes[n].hold]_mcvars

\* C06
\* (an id response that a sleeping requester's hold queue releases at its wake-up was issued earlier, when it was queued:
\* it is judged then, not again when it leaves the queue)
Released == UNION {SeqSet(nodes[n].hold) : n \in DOMAIN nodes}
IdsInRangeAndFresh ==
  [][\A m \in (SeqSet(NewCmds) \ Released) \cup UNION {SeqSet(nodes'[n].hold) \ SeqSet(nodes[n].hold) : n \in DOMAIN nodes \cap DOMAIN nodes'} :
       (m.cmd = INTERNAL /\ m.sub = I_ID_RESP) =>
          \E k \in 1..MaxId : /\ m.p = ToString(k)
                              /\ k \notin DOMAIN nodes /\ k \notin issued]_mcvars

\* C07
QuietWhileAsleep ==
  [][\A m \in SeqSet(NewCmds) :
       (Sleeping(nodes', m.n) /\ m.cmd # STREAM) => IsWakeStepOf(m.n)]_mcvars
HoldOnlyForSleepers == TreeDiscipline

\* C08
BurstShape ==
  [][\A n \in DOMAIN nodes : IsWakeStepOf(n) =>
        /\ nodes'[n].hold = <<>>
        /\ \E ord \in SetToSeqs(BurstSet(nodes, n)) : NewCmds = nodes[n].hold \o ord]_mcvars
AcceptedImpliesDeliverable ==
  \A n \in DOMAIN nodes : \A c \in DOMAIN nodes[n].desired : \A t \in DOMAIN nodes[n].desired[c] :
     nodes[n].desired[c][t] # NULLV =>
        /\ KnownTok(nodes[n].desired[c][t])
        /\ Accept(GwVer, [n |-> n, c |-> c, cmd |-> SET, ack |-> 0, sub |-> t], TokDesc(nodes[n].desired[c][t]))
ConfirmedNeverResent ==
  [][IsLineStep /\ Accepted(StepLine[1]) /\ StepLine[1].h.cmd = SET
       /\ IsKnown(nodes, StepLine[1].h.n, StepLine[1].h.c) /\ StepLine[1].h.c \in DOMAIN nodes[StepLine[1].h.n].desired
       \* (unless the application, in the callback of this very report, asks for a value of that type again)
       /\ (last'.r = 0 \/ Calls[last'.r].t # StepLine[1].h.sub)
       => nodes'[StepLine[1].h.n].desired[StepLine[1].h.c][StepLine[1].h.sub] = NULLV]_mcvars

\* C10
StreamResponses(s) == {m \in SeqSet(s) : m.cmd = STREAM}
OnlyScheduledNodesServed ==
  [][\A m \in StreamResponses(out') :
        /\ m.n \in DOMAIN ota.sess /\ ota.sess[m.n].fw \in ota.fw
        /\ IsLineStep /\ StepLine[1].h.n = m.n]_mcvars
ConfigWithheldAfterFetchStarted ==
  [][\A m \in StreamResponses(out') : m.sub = ST_CFG_RESP =>
        ota.sess[m.n].st \in {"requested", "unstarted"} /\ ota'.sess[m.n].st = "unstarted"]_mcvars
BlocksOnlyAfterConfig ==
  [][\A m \in StreamResponses(out') : m.sub = ST_FW_RESP =>
        ota.sess[m.n].st \in {"unstarted", "started"} /\ ota'.sess[m.n].st = "started"]_mcvars
MalformedFwRequestIgnored ==
  [][IsLineStep /\ Accepted(StepLine[1]) /\ StepLine[1].h.cmd = STREAM
       /\ \/ StepLine[1].h.sub = ST_CFG_REQ /\ ~StepLine[1].p.fw.wf5
          \/ StepLine[1].h.sub = ST_FW_REQ /\ ~StepLine[1].p.fw.wf3
       => ota' = ota /\ StreamResponses(out') = {}]_mcvars
RebootUntilPresented ==
  [][IsLineStep /\ Accepted(StepLine[1]) /\ StepLine[1].h.cmd = SET
       /\ IsKnown(nodes, StepLine[1].h.n, StepLine[1].h.c) /\ nodes[StepLine[1].h.n].reboot
       => \/ Cmd(StepLine[1].h.n, SYSCHILD, INTERNAL, 0, I_REBOOT, "") \in SeqSet(NewCmds)
          \/ Cmd(StepLine[1].h.n, SYSCHILD, INTERNAL, 0, I_REBOOT, "") \in SeqSet(nodes'[StepLine[1].h.n].hold)]_mcvars
RebootOnlyAfterUpdate ==
  \A n \in DOMAIN nodes : nodes[n].reboot => n \in DOMAIN ota.sess

\* C14 / C11
StopLosesNothing == CleanMeansSaved
Disciplines == TreeDiscipline /\ OtaDiscipline
=============================================================================
