------------------------------- MODULE LinkTrace -------------------------------
(* Validates recorded supervision traces of the real gateways (fake devices,     *)
(* virtual clock) against Link.tla.  One event = one Link action; events flagged  *)
(* obs carry the observation taken at quiescence.                                 *)
EXTENDS Link, Json, IOUtils, TLCExt
CONSTANT Diag
Traces == ndJsonDeserialize(IOEnv.TRACE_FILE)
ASSUME \A t \in 1..Len(Traces) : TLCSet(t, 0)
VARIABLES tid, pos
tvars == <<vars, tid, pos>>
Ev == Traces[tid].ev[pos]
Clause(name, ok) == ok \/ (Diag /\ PrintT(<<"CLAUSE", tid, pos, name>>))
Sum(f) == LET RECURSIVE S(_) S(k) == IF k = 0 THEN 0 ELSE f[k] + S(k - 1) IN S(MaxConn)
LostFlags == LET idx == {c \in 1..MaxConn : lost'[c] > 0} IN
             [i \in 1..Cardinality(idx) |-> IF lostexc'[CHOOSE c \in idx : Cardinality({d \in idx : d < c}) = i - 1] THEN 1 ELSE 0]
Obs(e) ==
  e.obs =>
   /\ Clause("made", e.o.made = Sum(made'))
   /\ Clause("lost", e.o.lost = Sum(lost'))
   /\ Clause("lostexc", e.o.lostexc = LostFlags)
   /\ Clause("attempts", e.o.attempts = attempts')
   /\ Clause("nconn", e.o.nconn = nconn')
   /\ Clause("live", e.o.live = (IF live' = 0 THEN 0 ELSE 1))
   /\ Clause("probes", Dev = "tcp" => e.o.probes = probes')
   /\ Clause("afterstop", e.o.after_stop = 0)
   /\ Clause("orphans", e.o.orphans = orphans')
   /\ Clause("quiescent", e.o.quiescent)
StepAction(e) ==
  \/ e.a = "Start" /\ Start
  \/ e.a = "Attempt" /\ Attempt(e.ok)
  \/ e.a = "DialBegin" /\ DialBegin
  \/ e.a = "DialEnd" /\ DialEnd(e.ok)
  \/ e.a = "ReadError" /\ ReadError
  \/ e.a = "WriteError" /\ WriteError
  \/ e.a = "PeerClose" /\ PeerClose
  \/ e.a = "Tick" /\ Tick(e.d)
  \/ e.a = "Watchdog" /\ Watchdog
  \/ e.a = "Answer" /\ Answer
  \/ e.a = "Stop" /\ Stop
TInit == Init /\ tid \in 1..Len(Traces) /\ pos = 1
\* the real system is never late: the same urgency rule as NextTimed
TNext == /\ pos <= Len(Traces[tid].ev) /\ pos' = pos + 1 /\ tid' = tid
         /\ StepAction(Ev) /\ Obs(Ev)
         /\ Clause("urgent", Urgent => Ev.a \in {"Attempt", "DialBegin", "Watchdog", "Stop", "DialEnd"})
TSpec == TInit /\ [][TNext]_tvars
Track == TLCSet(tid, IF TLCGet(tid) < pos THEN pos ELSE TLCGet(tid))
Rejected == {t \in 1..Len(Traces) : TLCGet(t) # Len(Traces[t].ev) + 1}
Post == PrintT(<<"REJECTED", [t \in Rejected |-> TLCGet(t)]>>)
=============================================================================
