------------------------------ MODULE Gateway ------------------------------
(***************************************************************************)
(* The controller-side protocol engine of pymysensors as a state machine.  *)
(*                                                                         *)
(* One action per critical section of the code:                            *)
(*   Recv(l)      a complete line arrives (threaded: queued as a job;      *)
(*                asyncio: processed inline, add_job sends immediately)    *)
(*   Pump         the poll thread runs the oldest job and sends its result *)
(*   CSetChild    Gateway.set_child_value                                  *)
(*   CUpdateFw    Gateway.update_fw                                        *)
(*   CMetric      gateway.metric = b                                       *)
(*   StartPersist / Tick / Stop / Restart   persistence life cycle         *)
(* Handlers are operators from (state, line, choice) to a result record;   *)
(* every point the properties leave open is a field of the CHOICE record   *)
(* (freedom points): the id handed out, the order of the desired-value     *)
(* sets of a wake-up burst, the ack flag of a value-request reply.         *)
(* The spec describes the REPAIRED behaviour (see DESIGN.md section 6).    *)
(***************************************************************************)
EXTENDS Valid, SequencesExt, FiniteSetsExt, Functions, TLC

CONSTANTS GwVer,       \* "1.4" .. "2.2"   configured protocol version
          Flavour,     \* "sync" (threaded: job queue + pump) | "async" (inline)
          MaxId,       \* largest node id an id response may carry (254)
          IdGiveUpFree \* TRUE: an id request may always go unanswered (C06 only states safety);
                       \* FALSE: only when the top of the id space is reached (C05 prescribes a reply)

VARIABLES nodes,   \* [known node id -> NodeRec]
          ota,     \* [fw : set of <<type, version>>, sess : [node id -> [st, fw]]]
          jobs,    \* pending jobs (threaded flavour): [k |-> "L", l |-> line] | [k |-> "E", m |-> cmd]
          metric,  \* TRUE = metric
          pers,    \* persistence enabled and started
          dirty,   \* Persistence.need_save: set by alert(), cleared by a completed save
          disk,    \* what a load would restore: [file |-> BOOLEAN, nodes |-> persisted projection]
          issued,  \* history: every id ever carried by an id response (the nodes' memory)
          out,     \* commands handed to transport.send during this step, in order
          cb,      \* event callbacks made during this step
          exc      \* "none" | "refused": the controller call of this step raised to its caller
vars == <<nodes, ota, jobs, metric, pers, dirty, disk, issued, out, cb, exc>>

NOID  == -1            \* "no type" (Python None) for integer attributes
NULLV == "~NULL"       \* Python None for text attributes / confirmed desired values
NOW   == "@now"        \* payload token of a time reply: the clock reading taken during the step

WakeKind == IF GwVer \in {"2.0", "2.1"} THEN I_HB_RESP ELSE IF GwVer = "2.2" THEN I_PRE_SLEEP ELSE -99

EmptyFn == <<>>
NewNode == [ptype |-> NOID, pver |-> "1.4", pfl |-> "1.4", batt |-> 0, sname |-> NULLV, sver |-> NULLV,
            hb |-> "0", reboot |-> FALSE, kids |-> EmptyFn, desired |-> EmptyFn, hold |-> <<>>]
NewChild(t, d) == [ptype |-> t, desc |-> d, vals |-> EmptyFn]

Cmd(n, c, cmd, ack, sub, p) == [n |-> n, c |-> c, cmd |-> cmd, ack |-> ack, sub |-> sub, p |-> p]
CmdOfLine(l) == Cmd(l.h.n, l.h.c, l.h.cmd, l.h.ack, l.h.sub, l.p.tok)

Known(nd) == DOMAIN nd
Sleeping(nd, n) == n \in DOMAIN nd /\ DOMAIN nd[n].desired # {}

\* function update that may extend the domain
Put(f, k, v) == [x \in (DOMAIN f) \cup {k} |-> IF x = k THEN v ELSE f[x]]

(***************************************************************************)
(* Routing (Gateway._route_message): presentations are dropped, stream     *)
(* responses and traffic for unknown or awake nodes pass, everything else  *)
(* addressed to a sleeping node is appended to its hold queue.             *)
(***************************************************************************)
Route(nd, ms) ==   \* ms : sequence of 0 or 1 commands
  IF ms = <<>> \/ ms[1].cmd = PRES THEN [nd |-> nd, em |-> <<>>]
  ELSE LET m == ms[1] IN
       IF m.n \notin DOMAIN nd \/ m.cmd = STREAM \/ ~Sleeping(nd, m.n)
       THEN [nd |-> nd, em |-> <<m>>]
       ELSE [nd |-> [nd EXCEPT ![m.n].hold = Append(@, m)], em |-> <<>>]

\* Gateway.is_sensor: for >= 2.0 an unknown node/child triggers one presentation request
PresReq(n) == Cmd(n, SYSCHILD, INTERNAL, 0, I_PRESENTATION, "")
IsKnown(nd, n, c) == n \in DOMAIN nd /\ (c = NOID \/ c \in DOMAIN nd[n].kids)
NeedKnown(nd, n, c) ==   \* result when the node/child is NOT known
  IF Is2x(GwVer) THEN Route(nd, <<PresReq(n)>>) ELSE [nd |-> nd, em |-> <<>>]

\* handler result
Res(nd, o, jb, rp, cbs) == [nd |-> nd, ota |-> o, jb |-> jb, rp |-> rp, cbs |-> cbs]
Unknown(nd, o, n, c) == LET r == NeedKnown(nd, n, c) IN Res(r.nd, o, r.em, <<>>, <<>>)

(***************************************************************************)
(* Smart sleep: the wake-up burst (handler.handle_smartsleep).             *)
(***************************************************************************)
BurstSet(nd, n) ==
  LET s == nd[n] IN
  { Cmd(n, c, SET, 0, t, s.desired[c][t]) :
      <<c, t>> \in { ct \in (DOMAIN s.kids) \X (0..60) :
                       /\ ct[1] \in DOMAIN s.desired
                       /\ ct[2] \in DOMAIN s.kids[ct[1]].vals
                       /\ ct[2] \in DOMAIN s.desired[ct[1]]
                       /\ s.desired[ct[1]][ct[2]] # NULLV } }
IsPermOf(seq, S) == /\ Len(seq) = Cardinality(S)
                    /\ {seq[i] : i \in 1..Len(seq)} = S
\* ord : the order in which the desired-value sets are emitted (freedom point)
Wake(nd, n, ord) ==
  LET s == nd[n]
      des == [c \in DOMAIN s.kids |-> IF c \in DOMAIN s.desired THEN s.desired[c] ELSE EmptyFn]
  IN [nd |-> [nd EXCEPT ![n].desired = des, ![n].hold = <<>>],
      jb |-> s.hold \o ord]

(***************************************************************************)
(* OTA session automaton (ota.OTAFirmware).                                *)
(* sess[n].st: "requested" -> "unstarted" (config sent) -> "started".      *)
(* The payload descriptor of a stream request carries fw = [wf, t, v, blk].*)
(***************************************************************************)
\* payload tokens of stream responses (the hex content itself is the business of Ota.tla / C09)
FwCfgResp(n, f)      == Cmd(n, SYSCHILD, STREAM, 0, ST_CFG_RESP, "cfg:" \o ToString(f[1]) \o ":" \o ToString(f[2]))
FwBlkResp(n, f, blk) == Cmd(n, SYSCHILD, STREAM, 0, ST_FW_RESP,
                            "blk:" \o ToString(f[1]) \o ":" \o ToString(f[2]) \o ":" \o ToString(blk))

HFwCfgReq(nd, o, l) ==
  LET n == l.h.n IN
  IF ~l.p.fw.wf5 THEN Res(nd, o, <<>>, <<>>, <<>>)                  \* malformed: ignored
  ELSE IF n \in DOMAIN o.sess /\ o.sess[n].st \in {"requested", "unstarted"}
       THEN Res(nd, [o EXCEPT !.sess[n].st = "unstarted"], <<>>,
                <<[FwCfgResp(n, o.sess[n].fw) EXCEPT !.ack = l.h.ack]>>, <<CmdOfLine(l)>>)
       ELSE Res(nd, o, <<>>, <<>>, <<CmdOfLine(l)>>)

HFwReq(nd, o, l) ==
  LET n == l.h.n  f == <<l.p.fw.t, l.p.fw.v>> IN
  IF ~l.p.fw.wf3 THEN Res(nd, o, <<>>, <<>>, <<>>)                  \* malformed: ignored
  ELSE IF n \in DOMAIN o.sess /\ o.sess[n].st \in {"unstarted", "started"}
       THEN Res(nd, [o EXCEPT !.sess[n].st = "started"], <<>>,
                IF f \in o.fw THEN <<[FwBlkResp(n, f, l.p.fw.blk) EXCEPT !.ack = l.h.ack]>> ELSE <<>>,
                <<CmdOfLine(l)>>)
       ELSE Res(nd, o, <<>>, <<>>, <<CmdOfLine(l)>>)

(***************************************************************************)
(* Handlers.  ch = [id, ord, ack] is the choice record.                    *)
(***************************************************************************)
FreeIds(nd, iss) == (1..MaxId) \ (DOMAIN nd \cup iss)
MaxKnown(nd) == IF DOMAIN nd = {} THEN 0 ELSE Max(DOMAIN nd)

HPresentation(nd, o, l) ==
  LET n == l.h.n  c == l.h.c IN
  IF c = SYSCHILD THEN
     LET nd1 == IF n \in DOMAIN nd THEN nd ELSE Put(nd, n, NewNode)
         nd2 == [nd1 EXCEPT ![n].ptype = l.h.sub,
                            ![n].pver = IF l.p.vok THEN l.p.tok ELSE "1.4",
                            ![n].pfl = IF l.p.vok THEN l.p.vfl ELSE "1.4",
                            ![n].reboot = FALSE]
     IN Res(nd2, o, <<>>, <<>>, <<CmdOfLine(l)>>)
  ELSE IF n \notin DOMAIN nd THEN Unknown(nd, o, n, NOID)
  ELSE IF c \in DOMAIN nd[n].kids THEN Res(nd, o, <<>>, <<>>, <<>>)       \* first presentation wins
  ELSE Res([nd EXCEPT ![n].kids = Put(@, c, NewChild(l.h.sub, l.p.tok))], o, <<>>, <<>>, <<CmdOfLine(l)>>)

HSet(nd, o, l) ==
  LET n == l.h.n  c == l.h.c  t == l.h.sub IN
  IF ~IsKnown(nd, n, c) THEN Unknown(nd, o, n, c)
  ELSE LET nd1 == [nd EXCEPT ![n].kids[c].vals = Put(@, t, l.p.tok)]
           nd2 == IF c \in DOMAIN nd[n].desired
                  THEN [nd1 EXCEPT ![n].desired[c] = Put(@, t, NULLV)] ELSE nd1
       IN Res(nd2, o, <<>>,
              IF nd[n].reboot THEN <<Cmd(n, SYSCHILD, INTERNAL, 0, I_REBOOT, "")>> ELSE <<>>,
              <<CmdOfLine(l)>>)

DesiredOrActual(s, c, t) ==   \* sequence of 0 or 1 value tokens
  IF c \in DOMAIN s.desired /\ t \in DOMAIN s.desired[c] /\ s.desired[c][t] # NULLV
  THEN <<s.desired[c][t]>>
  ELSE IF t \in DOMAIN s.kids[c].vals THEN <<s.kids[c].vals[t]>> ELSE <<>>

HReq(nd, o, l, ch) ==
  LET n == l.h.n  c == l.h.c  t == l.h.sub IN
  IF ~IsKnown(nd, n, c) THEN Unknown(nd, o, n, c)
  ELSE LET v == DesiredOrActual(nd[n], c, t) IN
       Res(nd, o, <<>>, IF v = <<>> THEN <<>> ELSE <<Cmd(n, c, SET, ch.ack, t, v[1])>>, <<>>)

HNodeAttr(nd, o, l, upd(_)) ==   \* battery level, sketch name, sketch version
  LET n == l.h.n IN
  IF n \notin DOMAIN nd THEN Unknown(nd, o, n, NOID)
  ELSE Res([nd EXCEPT ![n] = upd(@)], o, <<>>, <<>>, <<CmdOfLine(l)>>)

\* ch.id = 0: no id allocated (allowed only when the id space is exhausted at the top,
\* which is when both a max+1 and a lowest-free allocator may give up)
HIdReq(nd, o, l, ch) ==
  IF ch.id = 0
  THEN Res(nd, o, <<>>, <<>>, <<>>)
  ELSE Res(Put(nd, ch.id, NewNode), o, <<>>,
           <<Cmd(l.h.n, l.h.c, INTERNAL, 0, I_ID_RESP, ToString(ch.id))>>, <<CmdOfLine(l)>>)
IdChoiceOk(nd, iss, id) ==
  \/ id \in FreeIds(nd, iss)
  \/ id = 0 /\ (IdGiveUpFree \/ FreeIds(nd, iss) = {} \/ MaxKnown(nd) >= MaxId)

HWakeThen(nd, o, l, ch, hbUpdate) ==   \* heartbeat response / pre-sleep notification
  LET n == l.h.n IN
  IF n \notin DOMAIN nd THEN Unknown(nd, o, n, NOID)
  ELSE LET w   == IF l.h.sub = WakeKind THEN Wake(nd, n, ch.ord) ELSE [nd |-> nd, jb |-> <<>>]
           nd2 == IF hbUpdate THEN [w.nd EXCEPT ![n].hb = l.p.ic] ELSE w.nd
       IN Res(nd2, o, w.jb, <<>>, IF hbUpdate THEN <<CmdOfLine(l)>> ELSE <<>>)

HInternal(nd, o, l, ch, met) ==
  LET s == l.h.sub  n == l.h.n IN
  CASE s = I_ID_REQ      -> HIdReq(nd, o, l, ch)
    [] s = I_CONFIG      -> Res(nd, o, <<>>, <<Cmd(n, l.h.c, INTERNAL, 0, I_CONFIG, IF met THEN "M" ELSE "I")>>, <<>>)
    [] s = I_TIME        -> Res(nd, o, <<>>, <<Cmd(n, l.h.c, INTERNAL, 0, I_TIME, NOW)>>, <<>>)
    [] s = I_BATTERY     -> HNodeAttr(nd, o, l, LAMBDA r : [r EXCEPT !.batt = l.p.iv])
    [] s = I_SKETCH_NAME -> HNodeAttr(nd, o, l, LAMBDA r : [r EXCEPT !.sname = l.p.tok])
    [] s = I_SKETCH_VER  -> HNodeAttr(nd, o, l, LAMBDA r : [r EXCEPT !.sver = l.p.tok])
    [] s = I_GW_READY    -> Res(nd, o, <<>>,
                                IF Is2x(GwVer) THEN <<Cmd(BROADCAST, l.h.c, INTERNAL, 0, I_DISCOVER, "")>> ELSE <<>>,
                                <<CmdOfLine(l)>>)
    [] s = I_HB_RESP /\ Is2x(GwVer)       -> HWakeThen(nd, o, l, ch, TRUE)
    [] s = I_PRE_SLEEP /\ GwVer = "2.2"   -> HWakeThen(nd, o, l, ch, FALSE)
    [] s = I_DISCOVER_RESP /\ Is2x(GwVer) -> IF n \in DOMAIN nd THEN Res(nd, o, <<>>, <<>>, <<>>)
                                                                  ELSE Unknown(nd, o, n, NOID)
    [] OTHER -> Res(nd, o, <<>>, <<>>, <<>>)

HStream(nd, o, l) ==
  LET n == l.h.n IN
  IF n \notin DOMAIN nd THEN Unknown(nd, o, n, NOID)
  ELSE CASE l.h.sub = ST_CFG_REQ -> HFwCfgReq(nd, o, l)
         [] l.h.sub = ST_FW_REQ  -> HFwReq(nd, o, l)
         [] OTHER -> Res(nd, o, <<>>, <<>>, <<>>)

Handle(nd, o, l, ch, met) ==
  CASE l.h.cmd = PRES     -> HPresentation(nd, o, l)
    [] l.h.cmd = SET      -> HSet(nd, o, l)
    [] l.h.cmd = REQ      -> HReq(nd, o, l, ch)
    [] l.h.cmd = INTERNAL -> HInternal(nd, o, l, ch, met)
    [] l.h.cmd = STREAM   -> HStream(nd, o, l)

\* messages whose callback the property does not prescribe (they change nothing that is
\* persisted): 0 or 1 callback is allowed
CbOptional(l) == \/ l.h.cmd = STREAM
                 \/ l.h.cmd = INTERNAL /\ l.h.sub = I_GW_READY

Accepted(l) == l.wf /\ Accept(GwVer, l.h, l.p)

\* Gateway.logic: decode, validate, dispatch, route the reply
Logic(nd, o, l, ch, met) ==
  IF ~Accepted(l) THEN [nd |-> nd, ota |-> o, jb |-> <<>>, em |-> <<>>, cbs |-> <<>>]
  ELSE LET r  == Handle(nd, o, l, ch, met)
           rt == Route(r.nd, r.rp)
       IN [nd |-> rt.nd, ota |-> r.ota, jb |-> r.jb, em |-> rt.em, cbs |-> r.cbs]

ChoiceOk(nd, iss, l, ch) ==
  /\ (Accepted(l) /\ l.h.cmd = INTERNAL /\ l.h.sub = I_ID_REQ) => IdChoiceOk(nd, iss, ch.id)
  /\ (Accepted(l) /\ l.h.cmd = INTERNAL /\ l.h.sub = WakeKind /\ l.h.n \in DOMAIN nd)
        => IsPermOf(ch.ord, BurstSet(nd, l.h.n))
  /\ ch.ack \in {0, 1}

NewIssued(l, ch) == IF Accepted(l) /\ l.h.cmd = INTERNAL /\ l.h.sub = I_ID_REQ /\ ch.id # 0
                    THEN {ch.id} ELSE {}

(***************************************************************************)
(* Persistence (atomic view; the non-atomic view is Persist.tla).          *)
(***************************************************************************)
Persisted(nd) == [n \in DOMAIN nd |-> [nd[n] EXCEPT !.reboot = FALSE, !.desired = EmptyFn, !.hold = <<>>]]
NoFile == [file |-> FALSE, nodes |-> EmptyFn]
SavedNow(nd) == [file |-> TRUE, nodes |-> Persisted(nd)]
NeedsSave == pers /\ disk # SavedNow(nodes)

(***************************************************************************)
(* Actions.                                                                *)
(***************************************************************************)
EJobs(seq) == [i \in 1..Len(seq) |-> [k |-> "E", m |-> seq[i]]]

\* set_child_value(n, c, t, v, ack=a) as a function of the tree: the tree afterwards, the command it hands to add_job (0 or 1),
\* and whether the caller sees it refused.  v is a payload descriptor, t an integer (given as int or as numeric string - both
\* mean the same value type)
SetChildRes(nd, n, c, t, v, a) ==
  IF ~IsKnown(nd, n, c)
  THEN LET r == NeedKnown(nd, n, c) IN [nd |-> r.nd, em |-> r.em, exc |-> "none"]
  ELSE LET h == [n |-> n, c |-> c, cmd |-> SET, ack |-> a, sub |-> t] IN
       IF Sleeping(nd, n)
       THEN \* desired value: must be deliverable as a valid set command later
            IF /\ c \in DOMAIN nd[n].desired
               /\ v.carr                         \* the wire format can carry it (no ';', no line break)
               /\ Accept(nd[n].pfl, [h EXCEPT !.ack = 0], v)
               /\ Accept(GwVer, [h EXCEPT !.ack = 0], v)
            THEN [nd |-> [nd EXCEPT ![n].desired[c] = Put(@, t, v.tok)], em |-> <<>>, exc |-> "none"]
            ELSE [nd |-> nd, em |-> <<>>, exc |-> "refused"]
       ELSE IF v.carr /\ Accept(GwVer, h, v)
            THEN [nd |-> nd, em |-> <<Cmd(n, c, SET, a, t, v.tok)>>, exc |-> "none"]
            ELSE [nd |-> nd, em |-> <<>>, exc |-> "refused"]

\* The application's event callback may call back into the gateway.  Two modelled reactions:
\*   kind "fw"  - update_fw(node, f) for the node whose PRESENTATION is being announced (type and version alone, no image);
\*   kind "set" - set_child_value(node, child, t, v, ack=a) for the node and child whose SET message is being announced (an
\*                application answering a report with a command: a thermostat pushing its set point back, a scene controller),
\*                or for the child whose PRESENTATION is being announced (an application initialising whatever shows up; for a
\*                sleeping node that call is refused: the new child has no desired-value slot before the next wake-up).
\* The event is raised after the handler's own state changes and nothing of the handler that touches the tree follows it, so
\* the reaction applies to the handler's result (routing the handler's reply only appends to a hold queue and does not look at
\* what the reaction changes: the two commute).  A command the reaction hands to add_job leaves BEFORE the handler's reply
\* (asyncio) or joins the job queue (threaded); a refusal is raised inside the callback and swallowed by alert().
NoReact == [on |-> FALSE, kind |-> "fw", n |-> 0, f |-> <<0, 0>>, t |-> 0, v |-> 0, a |-> 0]
React(r, l, rx) ==
  IF rx.on /\ rx.kind = "fw" /\ r.cbs # <<>> /\ l.wf /\ l.h.cmd = PRES /\ rx.f \in r.ota.fw /\ rx.n \in DOMAIN r.nd
  THEN [nd |-> [r.nd EXCEPT ![rx.n].reboot = TRUE],
        ota |-> [r.ota EXCEPT !.sess = [n \in DOMAIN r.ota.sess \cup {rx.n} |->
                                          IF n = rx.n THEN [st |-> "requested", fw |-> rx.f] ELSE r.ota.sess[n]]],
        em |-> <<>>]
  ELSE IF rx.on /\ rx.kind = "set" /\ r.cbs # <<>> /\ l.wf /\ (l.h.cmd = SET \/ (l.h.cmd = PRES /\ l.h.c # SYSCHILD))
  THEN LET s == SetChildRes(r.nd, l.h.n, l.h.c, rx.t, rx.v, rx.a) IN [nd |-> s.nd, ota |-> r.ota, em |-> s.em]
  ELSE [nd |-> r.nd, ota |-> r.ota, em |-> <<>>]
\* what the reacting callback sees of its own set_child_value call
ReactSetExc(nd, o, l, rx) ==
  LET h == IF l.h.cmd = SET THEN HSet(nd, o, l) ELSE HPresentation(nd, o, l)
  IN SetChildRes(h.nd, l.h.n, l.h.c, rx.t, rx.v, rx.a).exc

RecvAsyncR(l, ch, rx) ==
  /\ Flavour = "async"
  /\ ChoiceOk(nodes, issued, l, ch)
  /\ LET r == Logic(nodes, ota, l, ch, metric) IN
       /\ nodes' = React(r, l, rx).nd /\ ota' = React(r, l, rx).ota
       /\ out' = React(r, l, rx).em \o r.jb \o r.em   \* add_job sends at once; the reply of logic() is sent last
       /\ cb' = r.cbs
  /\ issued' = issued \cup NewIssued(l, ch)
  /\ exc' = "none"
  /\ dirty' = (dirty \/ (pers /\ cb' # <<>>))       \* alert() marks the state unsaved
  /\ UNCHANGED <<jobs, metric, pers, disk>>
RecvAsync(l, ch) == RecvAsyncR(l, ch, NoReact)

RecvSync(l) ==
  /\ Flavour = "sync"
  /\ jobs' = Append(jobs, [k |-> "L", l |-> l])
  /\ out' = <<>> /\ cb' = <<>> /\ exc' = "none"
  /\ UNCHANGED <<nodes, ota, metric, pers, dirty, disk, issued>>

PumpR(ch, rx) ==
  /\ Flavour = "sync" /\ jobs # <<>>
  /\ LET j == Head(jobs) IN
     IF j.k = "E"
     THEN /\ out' = <<j.m>> /\ cb' = <<>> /\ jobs' = Tail(jobs)
          /\ UNCHANGED <<nodes, ota, issued>>
     ELSE /\ ChoiceOk(nodes, issued, j.l, ch)
          /\ LET r == Logic(nodes, ota, j.l, ch, metric) IN
               /\ nodes' = React(r, j.l, rx).nd /\ ota' = React(r, j.l, rx).ota
               /\ jobs' = Tail(jobs) \o EJobs(React(r, j.l, rx).em) \o EJobs(r.jb)
               /\ out' = r.em
               /\ cb' = r.cbs
          /\ issued' = issued \cup NewIssued(j.l, ch)
  /\ exc' = "none"
  /\ dirty' = (dirty \/ (pers /\ cb' # <<>>))
  /\ UNCHANGED <<metric, pers, disk>>
Pump(ch) == PumpR(ch, NoReact)

\* set_child_value(n, c, t, v, ack=a) called by the controller
CSetChild(n, c, t, v, a) ==
  /\ cb' = <<>>
  /\ UNCHANGED <<ota, metric, pers, dirty, disk, issued>>
  /\ LET r == SetChildRes(nodes, n, c, t, v, a) IN
       /\ nodes' = r.nd /\ exc' = r.exc
       /\ IF Flavour = "sync" THEN jobs' = jobs \o EJobs(r.em) /\ out' = <<>>
                              ELSE jobs' = jobs /\ out' = r.em

\* update_fw(nids, type, version, image?): f = <<type, version>>
CUpdateFw(nids, f, withImage) ==
  /\ out' = <<>> /\ cb' = <<>> /\ exc' = "none"
  /\ UNCHANGED <<jobs, metric, pers, dirty, disk, issued>>
  /\ LET fw2 == IF withImage THEN ota.fw \cup {f} ELSE ota.fw IN
     IF f \notin fw2
     THEN ota' = ota /\ nodes' = nodes
     ELSE LET tgt == nids \cap DOMAIN nodes IN
          /\ ota' = [fw |-> fw2,
                     sess |-> [n \in DOMAIN ota.sess \cup tgt |->
                                 IF n \in tgt THEN [st |-> "requested", fw |-> f] ELSE ota.sess[n]]]
          /\ nodes' = [n \in DOMAIN nodes |-> IF n \in tgt THEN [nodes[n] EXCEPT !.reboot = TRUE] ELSE nodes[n]]

\* update_fw with an image file that cannot be used (unreadable, not Intel-HEX, or holding no data) or with a firmware
\* type / version that is not an integer: nothing is scheduled and nothing is registered
CUpdateFwBad ==
  /\ out' = <<>> /\ cb' = <<>> /\ exc' = "none"
  /\ UNCHANGED <<nodes, ota, jobs, metric, pers, dirty, disk, issued>>

\* Gateway.send(text): the string goes to the transport as it is (routing and validation are the caller's business)
CSend ==
  /\ cb' = <<>> /\ exc' = "none"
  /\ UNCHANGED <<nodes, ota, jobs, metric, pers, dirty, disk, issued>>

CMetric(b) ==
  /\ metric' = b
  /\ out' = <<>> /\ cb' = <<>> /\ exc' = "none"
  /\ UNCHANGED <<nodes, ota, jobs, pers, dirty, disk, issued>>

\* start_persistence: load (adds what the file holds), then the first scheduled save
Loaded(d) == d.nodes
StartPersist ==
  /\ ~pers
  /\ pers' = TRUE
  /\ nodes' = [n \in DOMAIN nodes \cup DOMAIN Loaded(disk) |->
                 IF n \in DOMAIN Loaded(disk) THEN Loaded(disk)[n] ELSE nodes[n]]
  /\ disk' = SavedNow(nodes') /\ dirty' = FALSE
  /\ out' = <<>> /\ cb' = <<>> /\ exc' = "none"
  /\ UNCHANGED <<ota, jobs, metric, issued>>

\* a periodic save tick / the final save of stop(): save_sensors writes only when the state is
\* marked unsaved.  That this loses nothing is the invariant CleanMeansSaved (C14).
Tick ==
  /\ pers
  /\ disk' = (IF dirty THEN SavedNow(nodes) ELSE disk) /\ dirty' = FALSE
  /\ out' = <<>> /\ cb' = <<>> /\ exc' = "none"
  /\ UNCHANGED <<nodes, ota, jobs, metric, pers, issued>>

\* stop() followed by a new gateway object on the same file (not yet started)
StopRestart ==
  /\ disk' = (IF pers /\ dirty THEN SavedNow(nodes) ELSE disk) /\ dirty' = FALSE
  /\ nodes' = EmptyFn
  /\ ota' = [fw |-> {}, sess |-> EmptyFn]
  /\ jobs' = <<>> /\ metric' = TRUE /\ pers' = FALSE
  /\ out' = <<>> /\ cb' = <<>> /\ exc' = "none"
  /\ UNCHANGED issued

\* stop() of a gateway object that is started again afterwards (possible for the asyncio MQTT gateway, whose transport
\* survives stop()): the final save as in StopRestart; everything in memory stays, firmware sessions included.  The next
\* start_persistence() loads the file over it (StartPersist).
StopSame ==
  /\ disk' = (IF pers /\ dirty THEN SavedNow(nodes) ELSE disk) /\ dirty' = FALSE
  /\ pers' = FALSE
  /\ out' = <<>> /\ cb' = <<>> /\ exc' = "none"
  /\ UNCHANGED <<nodes, ota, jobs, metric, issued>>

Init ==
  /\ nodes = EmptyFn
  /\ ota = [fw |-> {}, sess |-> EmptyFn]
  /\ jobs = <<>> /\ metric = TRUE /\ pers = FALSE /\ dirty = FALSE /\ disk = NoFile /\ issued = {}
  /\ out = <<>> /\ cb = <<>> /\ exc = "none"

(***************************************************************************)
(* Properties (state predicates on the step variables out / cb, and        *)
(* action properties).                                                     *)
(***************************************************************************)
\* C05: every emitted command is valid for the configured version.  The payload
\* descriptor of an emitted token is supplied by the instance (PD).
\* C06: ids carried by id responses are in range
IdRespIds(o) == {o[i].p : i \in {j \in 1..Len(o) : o[j].cmd = INTERNAL /\ o[j].sub = I_ID_RESP}}

\* C07: nothing leaves for a sleeping node except stream responses and wake-up bursts.
\* (burst tagging lives in the focus module; here the structural part)
TreeDiscipline ==
  \A n \in DOMAIN nodes :
     /\ DOMAIN nodes[n].desired \subseteq DOMAIN nodes[n].kids
     /\ (nodes[n].hold # <<>> => Sleeping(nodes, n))
     /\ \A i \in 1..Len(nodes[n].hold) : nodes[n].hold[i].n = n /\ nodes[n].hold[i].cmd # STREAM
\* C14: whenever the state is not marked unsaved, the file already holds it
CleanMeansSaved == pers /\ ~dirty => disk = SavedNow(nodes)
OtaDiscipline ==
  /\ DOMAIN ota.sess \subseteq DOMAIN nodes
  /\ \A n \in DOMAIN ota.sess : ota.sess[n].fw \in ota.fw
=============================================================================
