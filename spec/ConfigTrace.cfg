INIT Init
NEXT Next
INVARIANT SubsetAccepted
