SPECIFICATION Spec
CONSTANTS NMsgs = 3
 Snapshot = TRUE
 ClearFirst = TRUE
 LostExc = TRUE
 WithUser = TRUE
 WithLost = TRUE
 WithStop = FALSE
 WithConnector = TRUE
 MaxConn = 3
INVARIANT NoExceptionIntoPump
INVARIANT NoExceptionIntoUser
INVARIANT AtMostOnce
INVARIANT QueueOrder
INVARIANT ExactlyOnceOrDropped
INVARIANT Conservation
PROPERTY NoWriteAfterExit
CHECK_DEADLOCK FALSE
