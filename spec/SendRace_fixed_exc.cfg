SPECIFICATION Spec
CONSTANTS NMsgs = 3
 Snapshot = TRUE
 ClearFirst = TRUE
 LostExc = TRUE
 WithUser = TRUE
 WithLost = TRUE
 WithConnector = TRUE
 MaxConn = 3
INVARIANT NoExceptionIntoPump
INVARIANT NoExceptionIntoUser
INVARIANT AtMostOnce
INVARIANT QueueOrder
INVARIANT ExactlyOnceOrDropped
CHECK_DEADLOCK FALSE
