INIT Init
NEXT Next
