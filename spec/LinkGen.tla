-------------------------------- MODULE LinkGen --------------------------------
(* Link.tla with the label of the last action as a variable: source of the event  *)
(* sequences that the harness plays against the real gateways (tlc -simulate).    *)
EXTENDS Link
CONSTANT Focus      \* "all" | "watchdog" (probe / answer latency patterns on an established TCP link)
VARIABLE act
gvars == <<vars, act>>
GInit == Init /\ act = [a |-> "Init", d |-> 0, ok |-> FALSE]
L(a, d, ok) == act' = [a |-> a, d |-> d, ok |-> ok]
\* (the harness lets the real system run to quiescence after every event, so a stop() that overtakes
\* a due attempt or probe is not generated here; Link.tla itself allows and checks it)
\* serial_asyncio opens the port synchronously: no other event can fall inside that dial
CanHold == ~(Dev = "serial" /\ Fl = "async")
Sys == \/ (Attempt(TRUE) /\ L("Attempt", 0, TRUE))
       \/ (Attempt(FALSE) /\ L("Attempt", 0, FALSE))
       \/ (Watchdog /\ L("Watchdog", 0, FALSE))
       \/ (CanHold /\ DialBegin /\ L("DialBegin", 0, FALSE))
       \/ (DialDue /\ DialEnd(FALSE) /\ L("DialEnd", 0, FALSE))
\* while a dial is in flight: it ends, the clock moves a little (well inside any connect timeout), or stop() is called
EnvD == \/ (DialEnd(TRUE) /\ L("DialEnd", 0, TRUE))
        \/ (DialEnd(FALSE) /\ L("DialEnd", 0, FALSE))
        \/ (~stopped /\ Stop /\ L("Stop", 0, FALSE))
        \/ (\E d \in {1, 2, 3} : now + d < attempts[Len(attempts)] + R - 3 /\ Tick(d) /\ L("Tick", d, FALSE))
        \* asyncio TCP: the clock may also run past the connect timeout - the dial then ends as failed (urgent)
        \/ (Fl = "async" /\ Dev = "tcp" /\ ~stopped /\ \E d \in {R - 1, R, R + 2} : Tick(d) /\ L("Tick", d, FALSE))
Env == \/ (Start /\ L("Start", 0, FALSE))
       \/ (ReadError /\ L("ReadError", 0, FALSE))
       \/ (WriteError /\ L("WriteError", 0, FALSE))
       \/ (PeerClose /\ L("PeerClose", 0, FALSE))
       \/ (Answer /\ L("Answer", 0, FALSE))
       \/ (Stop /\ L("Stop", 0, FALSE))
       \/ (\E d \in {1, 2, 3, R - 1, R, R + 1, R + 2, R + 3, 2 * R + 1, 2 * R + 3} : Tick(d) /\ L("Tick", d, FALSE))
\* probe-answer latency patterns: only small and near-R ticks and answers while the link is up
EnvW == \/ (Answer /\ L("Answer", 0, FALSE))
        \/ (\E d \in {1, 2, 3, 4, R - 2, R, R + 1, R + 2, R + 3} : Tick(d) /\ L("Tick", d, FALSE))
NotStarted == attempts = <<>> /\ loop = "idle" /\ ~stopped
GNext == IF NotStarted THEN (Start /\ L("Start", 0, FALSE))
         ELSE IF Urgent THEN Sys
         ELSE IF loop = "dialing" THEN EnvD
         ELSE IF stopped THEN (\E d \in {1, R + 1, 2 * R + 3} : Tick(d) /\ L("Tick", d, FALSE))
         ELSE IF Focus = "watchdog" /\ live # 0 THEN EnvW
         ELSE Env
GSpec == GInit /\ [][GNext]_gvars
=============================================================================
