SPECIFICATION Spec
CONSTANT MaxLen = 6
INVARIANT ChunkingIrrelevant
CHECK_DEADLOCK FALSE
