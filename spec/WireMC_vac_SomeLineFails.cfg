INIT Init
NEXT Next
CONSTANT Tier = "quick"
INVARIANT SomeLineFails
