------------------------------- MODULE Persist -------------------------------
(***************************************************************************)
(* Persistence of the network state on a file system that can lose         *)
(* unsynced data (properties C12, C13, C15).                               *)
(*                                                                         *)
(* Three paths: main, bak, tmp.  A file has three copies of its content:   *)
(*   buf  data written through the Python file object but not yet flushed  *)
(*   vol  data the OS holds (survives the death of the process)            *)
(*   dur  data on the medium (survives power loss)                         *)
(* Directory operations (create, rename, remove) are atomic, ordered and   *)
(* durable (journalled metadata) - the assumption stated in DESIGN.md.     *)
(* Content is abstract: ABSENT, BAD (empty / truncated / zero-filled /     *)
(* partial) or a complete snapshot, identified by its version number >= 1. *)
(* Version 0 is the empty network (what a gateway without usable file has).*)
(*                                                                         *)
(* The saver has one label per file-system operation of                    *)
(* Persistence.save_sensors; the environment may crash the process (with   *)
(* or without loss of unsynced data) or make the current operation fail at *)
(* every label.                                                            *)
(***************************************************************************)
EXTENDS Integers, Sequences, FiniteSets, TLC

CONSTANTS MaxVersion,   \* bound on the number of distinct states
          MaxFaults,    \* bound on injected faults (crash / failing operation)
          SilentRace,   \* TRUE: a change during serialisation may go unnoticed by the dump
          ClaimFirst    \* TRUE (repaired code): need_save is cleared BEFORE the state is serialised and set again when the
                        \* attempt fails; FALSE (pinned code): it is cleared at the end of a successful save

ABSENT == -1
BAD    == -2
Paths  == {"main", "bak", "tmp"}
IsSnap(c) == c >= 0      \* 0 = a good file holding the empty network

VARIABLES fs,        \* [Paths -> [vol, dur]]   content as the OS / the medium holds it
          buf,       \* content of tmp still in the Python buffer (ABSENT when no file is open)
          sv,        \* saver: [pc, exists, snap]
          cur,       \* version of the in-memory network state (0 = empty network)
          nextv,     \* next fresh version number
          dirty,     \* Persistence.need_save
          sched,     \* periodic schedule: "off" | "armed" | "running" | "dead"
          faults,    \* faults injected so far
          committed, \* version a load must restore if the process dies now (history)
          up,        \* FALSE between a crash and the start-up load
          lastfail   \* TRUE right after an attempt failed (history, for FailedAttemptHarmless)
vars == <<fs, buf, sv, cur, nextv, dirty, sched, faults, committed, up, lastfail>>
LastStepFailed == lastfail

File(v, d) == [vol |-> v, dur |-> d]
NoFile == File(ABSENT, ABSENT)
Idle == [pc |-> "idle", exists |-> FALSE, snap |-> 0, bakd |-> FALSE]

Init ==
  /\ fs = [p \in Paths |-> NoFile] /\ buf = ABSENT /\ sv = Idle
  /\ cur = 0 /\ nextv = 1 /\ dirty = TRUE /\ sched = "off" /\ faults = 0 /\ committed = 0 /\ up = TRUE
  /\ lastfail = FALSE

(***************************************************************************)
(* Loading (Persistence.safe_load_sensors) on a materialised file system   *)
(* view f : [Paths -> content].  Returns the loaded version and the view   *)
(* after the promotions / removals the load performs.  Never fails.        *)
(***************************************************************************)
LoadRes(f) ==
  IF IsSnap(f["main"]) THEN [v |-> f["main"], f |-> f]
  ELSE IF f["bak"] # ABSENT
       THEN LET g == [f EXCEPT !["main"] = f["bak"], !["bak"] = ABSENT]      \* backup promoted
            IN IF IsSnap(f["bak"]) THEN [v |-> f["bak"], f |-> g]
               ELSE [v |-> 0, f |-> [g EXCEPT !["main"] = ABSENT]]           \* bad backup removed
       ELSE [v |-> 0, f |-> f]
View(lose) == [p \in Paths |-> IF lose THEN fs[p].dur ELSE fs[p].vol]
LoadNow(lose) == LoadRes(View(lose)).v

(***************************************************************************)
(* The saver (one action per operation).                                   *)
(***************************************************************************)
At(l) == up /\ sv.pc = l
Goto(l) == sv' = [sv EXCEPT !.pc = l]

SaveBegin ==      \* save_sensors entered: nothing to do when the state is not marked unsaved
  /\ At("idle") /\ sched \in {"off", "running"}
  /\ IF ~dirty THEN UNCHANGED <<sv, fs, buf>> /\ sched' = (IF sched = "running" THEN "armed" ELSE sched)
     ELSE /\ sv' = [pc |-> "open", exists |-> fs["main"].vol # ABSENT, snap |-> cur, bakd |-> FALSE]
          /\ UNCHANGED <<fs, buf, sched>>
  /\ dirty' = (IF ClaimFirst THEN FALSE ELSE dirty)       \* the pending changes are claimed before they are serialised
  /\ lastfail' = FALSE
  /\ UNCHANGED <<cur, nextv, faults, committed, up>>
Open ==           \* open(tmp, "w"): create / truncate
  /\ At("open") /\ fs' = [fs EXCEPT !["tmp"] = File(BAD, BAD)] /\ buf' = BAD /\ Goto("write")
  /\ UNCHANGED <<cur, nextv, dirty, sched, faults, committed, up, lastfail>>
Write ==          \* json.dump / pickle.dump: one or more writes; complete when dump returns.  A change made
                  \* while the dump was running and not noticed by it may or may not be part of what was written.
  /\ At("write") /\ \E s \in {sv.snap, cur} : buf' = s /\ sv' = [sv EXCEPT !.pc = "flush", !.snap = s]
  /\ UNCHANGED <<fs, cur, nextv, dirty, sched, faults, committed, up, lastfail>>
Flush ==          \* file.flush(): Python buffer -> OS
  /\ At("flush") /\ fs' = [fs EXCEPT !["tmp"].vol = buf] /\ Goto("fsync")
  /\ UNCHANGED <<buf, cur, nextv, dirty, sched, faults, committed, up, lastfail>>
Fsync ==          \* os.fsync(): OS -> medium
  /\ At("fsync") /\ fs' = [fs EXCEPT !["tmp"].dur = fs["tmp"].vol] /\ Goto("close")
  /\ UNCHANGED <<buf, cur, nextv, dirty, sched, faults, committed, up, lastfail>>
Close ==
  /\ At("close") /\ fs' = [fs EXCEPT !["tmp"].vol = buf] /\ buf' = ABSENT
  /\ Goto("ren2")
  /\ UNCHANGED <<cur, nextv, dirty, sched, faults, committed, up, lastfail>>
Ren1 ==           \* os.rename(main, bak): optional - replacing main directly by an atomic rename is just as safe
  /\ At("ren2") /\ sv.exists /\ ~sv.bakd
  /\ fs' = [fs EXCEPT !["bak"] = fs["main"], !["main"] = NoFile] /\ sv' = [sv EXCEPT !.bakd = TRUE]
  /\ UNCHANGED <<buf, cur, nextv, dirty, sched, faults, committed, up, lastfail>>
Ren2 ==           \* os.rename(tmp, main): the commit point
  /\ At("ren2") /\ fs' = [fs EXCEPT !["main"] = fs["tmp"], !["tmp"] = NoFile]
  /\ committed' = sv.snap
  /\ Goto(IF sv.bakd THEN "rm" ELSE "clear")
  /\ UNCHANGED <<buf, cur, nextv, dirty, sched, faults, up, lastfail>>
Rm ==             \* os.remove(bak)
  /\ At("rm") /\ fs' = [fs EXCEPT !["bak"] = NoFile] /\ Goto("clear")
  /\ UNCHANGED <<buf, cur, nextv, dirty, sched, faults, committed, up, lastfail>>
Clear ==          \* save_sensors returns (pinned code: need_save = False only now); the schedule re-arms
  /\ At("clear") /\ dirty' = (IF ClaimFirst THEN dirty ELSE FALSE) /\ sv' = Idle
  /\ sched' = (IF sched = "running" THEN "armed" ELSE sched)
  /\ UNCHANGED <<fs, buf, cur, nextv, faults, committed, up, lastfail>>

\* the current operation raises: the with-block closes the file, save_sensors propagates,
\* the state stays marked unsaved and (repaired code) the schedule re-arms
OpFails ==
  /\ up /\ sv.pc \in {"open", "write", "flush", "fsync", "close", "ren2", "rm"}
  /\ faults < MaxFaults /\ faults' = faults + 1
  /\ fs' = IF sv.pc \in {"write", "flush", "fsync", "close"}
           THEN [fs EXCEPT !["tmp"].vol = IF buf = sv.snap /\ sv.pc # "write" THEN buf ELSE BAD] ELSE fs
  /\ buf' = ABSENT /\ sv' = Idle /\ lastfail' = TRUE
  /\ sched' = (IF sched = "running" THEN "armed" ELSE sched)
  /\ dirty' = TRUE                    \* (ClaimFirst: the claim is given back; pinned code: the flag was never cleared)
  /\ UNCHANGED <<cur, nextv, committed, up>>

\* the writability pre-check of save_sensors (os.access on the directory / the existing file) fails - the location is momentarily
\* not writable (a directory renamed away, a read-only remount): the attempt ends there, QUIETLY.  Nothing is written, nothing is
\* raised to the caller; the state stays marked unsaved and the schedule re-arms
Denied ==
  /\ At("idle") /\ sched \in {"off", "running"} /\ dirty
  /\ faults < MaxFaults /\ faults' = faults + 1
  /\ sched' = (IF sched = "running" THEN "armed" ELSE sched)
  /\ lastfail' = TRUE
  /\ UNCHANGED <<fs, buf, sv, cur, nextv, dirty, committed, up>>

\* the network changes (a message is handled); while the state is being serialised this
\* either makes the dump raise ("changed size during iteration") or goes unnoticed by it
Mutate ==
  /\ up /\ nextv <= MaxVersion
  /\ sv.pc \in {"idle", "write"}
  /\ cur' = nextv /\ nextv' = nextv + 1 /\ dirty' = TRUE
  /\ \/ (sv.pc = "idle" \/ SilentRace) /\ UNCHANGED <<sv, buf, fs, sched, lastfail>>
     \/ /\ sv.pc = "write"                    \* the dump notices and raises: same unwinding as OpFails
        /\ lastfail' = TRUE
        /\ buf' = ABSENT /\ sv' = Idle /\ fs' = [fs EXCEPT !["tmp"].vol = BAD]
        /\ sched' = (IF sched = "running" THEN "armed" ELSE sched)
  /\ UNCHANGED <<faults, committed, up>>

\* the periodic schedule
StartSchedule == /\ up /\ sched = "off" /\ sv.pc = "idle" /\ sched' = "running"
                 /\ UNCHANGED <<fs, buf, sv, cur, nextv, dirty, faults, committed, up, lastfail>>
TimerFires    == /\ up /\ sched = "armed" /\ sv.pc = "idle" /\ sched' = "running"
                 /\ UNCHANGED <<fs, buf, sv, cur, nextv, dirty, faults, committed, up, lastfail>>

\* the process dies; lose = unsynced data is lost too
Crash(lose) ==
  /\ up /\ faults < MaxFaults /\ faults' = faults + 1
  /\ fs' = [p \in Paths |-> LET c == IF lose THEN fs[p].dur ELSE fs[p].vol IN
                            IF fs[p].vol = ABSENT THEN NoFile ELSE File(c, c)]
  /\ buf' = ABSENT /\ sv' = Idle /\ sched' = "off" /\ up' = FALSE /\ lastfail' = FALSE
  /\ dirty' = TRUE                    \* the next process starts with need_save = True
  /\ UNCHANGED <<cur, nextv, committed>>
\* start-up: safe_load_sensors, then the first save is due (need_save starts True)
StartUp ==
  /\ ~up /\ up' = TRUE
  /\ LET r == LoadRes([p \in Paths |-> fs[p].vol]) IN
       /\ cur' = r.v
       /\ fs' = [p \in Paths |-> IF r.f[p] = fs[p].vol THEN fs[p] ELSE File(r.f[p], r.f[p])]
  /\ dirty' = TRUE
  /\ UNCHANGED <<buf, sv, nextv, sched, faults, committed, lastfail>>

Next == SaveBegin \/ Open \/ Write \/ Flush \/ Fsync \/ Close \/ Ren1 \/ Ren2 \/ Rm \/ Clear
        \/ OpFails \/ Denied \/ Mutate \/ StartSchedule \/ TimerFires \/ Crash(TRUE) \/ Crash(FALSE) \/ StartUp
Spec == Init /\ [][Next]_vars
FairSpec == Spec /\ WF_vars(SaveBegin \/ Open \/ Write \/ Flush \/ Fsync \/ Close \/ Ren1 \/ Ren2 \/ Rm \/ Clear)
                 /\ WF_vars(TimerFires) /\ WF_vars(StartUp)

(***************************************************************************)
(* Properties.                                                             *)
(***************************************************************************)
\* C12: whatever happens now, a start-up load restores one complete state: the last committed
\* one (possibly the one being committed).  Empty only when nothing was ever committed.
AtomicReplace ==
  \A lose \in BOOLEAN :
     LET view == IF up THEN View(lose) ELSE View(FALSE) IN
     LoadRes(view).v = committed
\* C12: "and the next save succeeds": a completed save makes the current state the committed one
SaveCommitsCurrentSnapshot == sv.pc \in {"rm", "clear"} => committed = sv.snap
\* C13 / C12: a load never produces anything but a complete snapshot or the empty network
LoadWhole == \A lose \in BOOLEAN : LET v == LoadNow(lose) IN v = 0 \/ IsSnap(v)
\* C15: a failed attempt leaves the previous file loadable and the state marked unsaved, and the
\* schedule is never dead
FailedAttemptHarmless ==
  /\ sched # "dead"
  /\ (sv.pc = "idle" /\ faults > 0 /\ LastStepFailed => dirty)
\* C15 ("the next successful attempt persists the then-current state"): a state that counts as saved IS saved - also when
\* a change landed while an earlier state was being serialised and the dump did not notice.  The pinned code
\* (ClaimFirst = FALSE) violates this: the flag is cleared at the end of the save that missed the change
\* (Persist_pinned.cfg: TLC counterexample, kept as documentation).
NoLostUpdate == up /\ sv.pc = "idle" /\ ~dirty => committed = cur
ScheduleAlive == [][sched = "running" => sched' \in {"running", "armed", "off"}]_vars
\* C15 (liveness, finite faults): an unsaved state is eventually on disk, or superseded
EventuallySaved == []<>(~up \/ sched = "off" \/ committed = cur \/ sv.pc # "idle" \/ sched = "armed")
Heals == (up /\ sched # "off" /\ dirty) ~> (committed = cur \/ ~up \/ sched = "off")
TypeOK == /\ sv.pc \in {"idle", "open", "write", "flush", "fsync", "close", "ren2", "rm", "clear"}
          /\ sched \in {"off", "armed", "running", "dead"}
=============================================================================
