SPECIFICATION GSpec
CONSTANTS Dev = "tcp"
 Fl = "sync"
 R = 10
 MaxConn = 6
 MaxTime = 200
CHECK_DEADLOCK FALSE
