SPECIFICATION GSpec
CONSTANTS Dev = "tcp"
 Fl = "sync"
 R = 10
 Slack = 1
 Focus = "all"
 MaxConn = 6
 MaxTime = 200
CHECK_DEADLOCK FALSE
