"""C04 - network state mirrors what the nodes reported; callbacks are exact."""
from . import gwcheck, gwfocus

PID = "C04"
PROJ = ["tree", "cb", "exc"]
PROPS = ["NodesOnlyViaPresentationOrId", "ChildrenOnlyViaPresentation", "FirstPresentationWins", "LastWriterWins",
         "OneCallbackPerChange", "CallbackOnlyFromLines", "NoEffectOnBad"]


def run(tier):
    focus = [("tree", gwfocus.tree, ["1.4", "2.0", "2.2"], ["async", "sync"], False)]
    chk = gwcheck.GwCheck(PID, tier, PROJ, focus=focus, mc_props=PROPS, mc_invs=["Disciplines"],
                          mc_depth_quick=4, mc_depth_thorough=5,
                          nontrivial=lambda ev: bool(ev["cb"]))
    return chk.run()


def replay(path):
    return gwcheck.replay_file(path, PROJ)
