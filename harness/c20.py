"""C20 - connections are supervised and the callbacks are exact.

M: TLC checks Link.tla (discrete clock, R = 3) for the four combinations serial/tcp x threaded/asyncio:
   MadeOncePerConnection, LostOncePerLostConnection, AtMostOneLiveLink, ReconnectAfterLoss, RetryEveryR,
   QuietAfterStop, AnsweredNeverDropped, SilentDroppedInTime over all event sequences within the bounds.
B: TLC-generated event sequences (LinkGen.tla, -simulate) are played one event at a time against the real
   SerialGateway / TCPGateway / AsyncSerialGateway / AsyncTCPGateway on fake devices and a virtual clock
   (threaded: predicate-based quiescence; asyncio: virtual-time event loop); after every event the callback
   counts, connect attempt times, live connections, probe count and post-stop activity are recorded and the
   trace is validated by TLC against Link.tla (LinkTrace.tla).
"""
import json
import multiprocessing as mp
import os
import re
import shutil
from concurrent.futures import ThreadPoolExecutor

from . import common, tlc
from .gwtrace import _parse_rejected

PID = "C20"
COMBOS = [("serial", "sync"), ("tcp", "sync"), ("serial", "async"), ("tcp", "async")]
ENV = {"Start", "ReadError", "WriteError", "PeerClose", "Answer", "Tick"}
SYS = ("Attempt", "Watchdog", "DialBegin")      # (a DialEnd forced by the connect timeout is played as its own step)


def behaviours(wd, dev, fl, num, depth, seed, focus="all"):
    cfg = os.path.join(wd, f"gen_{dev}_{fl}_{focus}.cfg")
    with open(cfg, "w", encoding="utf-8") as fh:
        fh.write(f'SPECIFICATION GSpec\nCONSTANTS Dev = "{dev}"\n Fl = "{fl}"\n R = 160\n Slack = 2\n Focus = "{focus}"\n MaxConn = 8\n'
                 ' MaxTime = 100000\nCHECK_DEADLOCK FALSE\n')
    simdir = os.path.join(wd, f"sim_{dev}_{fl}_{focus}")
    shutil.rmtree(simdir, ignore_errors=True)
    os.makedirs(simdir)
    r = tlc.run("LinkGen", cfg, workdir=os.path.join(wd, f"genrun_{dev}_{fl}_{focus}"), workers=1, timeout=300, depth=depth, seed=seed,
                simulate=f"file={simdir}/b,num={num}")
    if r.error and "TLC exit code" not in (r.error or ""):
        raise tlc.MachineryError(f"LinkGen simulate: {r.error}\n{r.out[-1500:]}")
    out = []
    for fn in sorted(os.listdir(simdir)):
        with open(os.path.join(simdir, fn), encoding="utf-8") as fh:
            text = fh.read()
        acts = []
        for m in re.finditer(r"/\\ act = \[([^\]]*)\]", text):
            b = m.group(1)
            a = re.search(r'a \|-> "(\w+)"', b).group(1)
            d = int(re.search(r"d \|-> (\d+)", b).group(1))
            ok = "ok |-> TRUE" in b
            if a != "Init":
                acts.append({"a": a, "d": d, "ok": ok})
        if acts:
            out.append(acts)
    shutil.rmtree(simdir, ignore_errors=True)
    return out


def play(args):
    import logging
    logging.disable(logging.CRITICAL)
    dev, fl, acts, idx = args
    if fl == "sync":
        from .linksync import SyncLink as Link
    else:
        from .linkasync import AsyncLink as Link
    L = Link(dev)
    ev = []
    fed = False
    nfail = [idx]
    probe_after_stop = False
    try:
        i = 0
        while i < len(acts):
            a = acts[i]
            # the system actions that follow immediately (urgent) belong to this environment event
            j = i + 1
            while j < len(acts) and acts[j]["a"] in SYS:
                j += 1
            # a connection that breaks before the system is quiet again: "connect ok" directly followed by a read error
            # is played as ONE step (the device is created with the error already pending)
            while (j < len(acts) and acts[j]["a"] == "ReadError" and acts[j - 1]["a"] == "Attempt" and acts[j - 1]["ok"]
                   and idx % 2 == 0):
                acts[j - 1] = dict(acts[j - 1], okerr=True)
                j += 1
                while j < len(acts) and acts[j]["a"] in SYS:
                    j += 1
            group = acts[i:j]
            plan = [("hold" if g["a"] == "DialBegin" else "okerr" if g.get("okerr") else g["ok"]) for g in group
                    if g["a"] in ("Attempt", "DialBegin")]
            if dev == "tcp" and fl == "sync":
                # a failed dial is refused or times out (the threaded loop has a branch for each; the wait is the same)
                nfail[0] += 1
                plan = [("timeout" if (x is False and (nfail[0] + k) % 2) else x) for k, x in enumerate(plan)]
            name = a["a"]
            if name in ("ReadError", "WriteError", "PeerClose", "Answer") and not L.live():
                break          # the real system has no live connection here: it diverged earlier (already recorded)
            if name == "Start":
                L.start(plan)
            elif name == "Tick":
                L.advance(a["d"], plan)
            elif name == "ReadError":
                L.w.plan += plan
                L.read_error()
            elif name == "WriteError":
                L.w.plan += plan
                L.send(fail=True)
            elif name == "PeerClose":
                L.w.plan += plan
                L.peer_close()
            elif name == "Answer":
                L.data(b"0;255;3;0;2;2.3.2\n")
            elif name == "Stop":
                L.stop()
                probe_after_stop = True
            elif name == "DialEnd":
                if not L.release(a["ok"]):
                    if L.w.stopped_at is not None or a["ok"]:
                        i = j       # the dial was cancelled (asyncio stop()): nothing ends, the event does not exist
                        continue
                    # (not stopped, no dial pending any more: the asyncio connect timeout has ended it - the event stands)
            elif name in SYS:
                pass            # a behaviour never starts a group with a system action except after Init; tolerated
            if not fed and L.live() and idx % 2 == 0:
                # ordinary traffic on the link (a stuttering step for Link.tla): the gateway now knows nodes
                L.data(b"1;255;0;0;17;2.2\n1;0;0;0;3;x\n1;0;1;0;2;1\n")
                if idx % 4 == 0:
                    # the gateway device itself (node 0) is a presented node with a child that announces smart sleep: the
                    # keep-alive probes are addressed to node 0 and must reach the wire all the same
                    L.data(b"0;255;0;0;18;2.2\n0;1;0;0;3;relay\n0;1;1;0;2;1\n0;255;3;0;32;500\n")
                fed = True
            obs = L.observe()
            if probe_after_stop:
                probe_after_stop = False
                if L.release(True):
                    # a dial was still in flight when stop() returned and has now been answered: an event of its own (the
                    # specification says for which flavours and dials that can happen)
                    for k, g in enumerate(group):
                        e = dict(g)
                        e["obs"] = (k == len(group) - 1) and j < len(acts)
                        e["o"] = obs
                        e["cause"] = name
                        ev.append(e)
                    group = [{"a": "DialEnd", "d": 0, "ok": True}]
                    name = "DialEnd"
                    obs = L.observe()
            for k, g in enumerate(group):
                e = dict(g)
                # the last group of a behaviour may be cut by the depth bound before its urgent system actions: not compared
                e["obs"] = (k == len(group) - 1) and j < len(acts)
                e["o"] = obs
                e["cause"] = name          # the environment event this group of events belongs to
                ev.append(e)
            i = j
    finally:
        L.shutdown()
    return {"cfg": {"dev": dev, "fl": fl, "idx": idx}, "ev": ev, "acts": acts}


def validate(traces, wd):
    os.makedirs(wd, exist_ok=True)
    groups = {}
    for t in traces:
        groups.setdefault((t["cfg"]["dev"], t["cfg"]["fl"]), []).append(t)
    rejections, stats = [], {"states": 0, "generated": 0}

    def cfgfile(path, dev, fl, diag):
        with open(path, "w", encoding="utf-8") as fh:
            fh.write(f'SPECIFICATION TSpec\nCONSTANTS Dev = "{dev}"\n Fl = "{fl}"\n R = 160\n Slack = 2\n MaxConn = 12\n MaxTime = 1000000\n'
                     f' Diag = {"TRUE" if diag else "FALSE"}\nCONSTRAINT Track\nPOSTCONDITION Post\nCHECK_DEADLOCK FALSE\n'
                     'INVARIANT MadeOncePerConnection\nINVARIANT LostOncePerLostConnection\nINVARIANT AtMostOneLiveLink\nINVARIANT QuietAfterStop\n')

    def one(item):
        (dev, fl), ts = item
        path = os.path.join(wd, f"tr_{dev}_{fl}.ndjson")
        with open(path, "w", encoding="utf-8") as fh:
            for t in ts:
                fh.write(json.dumps({"ev": t["ev"]}) + "\n")
        cfg = os.path.join(wd, f"tr_{dev}_{fl}.cfg")
        cfgfile(cfg, dev, fl, False)
        r = tlc.run("LinkTrace", cfg, workdir=os.path.join(wd, f"val_{dev}_{fl}"), workers=1, deque=True, env={"TRACE_FILE": path}, timeout=1200)
        if r.violation and r.violation.startswith("invariant"):
            raise tlc.MachineryError(f"LinkTrace {dev}/{fl}: spec invariant violated on a trace\n{r.trace_text[:2000]}")
        tlc.must_ok(r, f"LinkTrace {dev}/{fl}")
        rej = _parse_rejected(r.out)
        if rej is None:
            raise tlc.MachineryError(f"LinkTrace {dev}/{fl}: no verdict\n{r.out[-1500:]}")
        out = []
        for tidx, upto in sorted(rej.items()):
            tr = ts[tidx - 1]
            names = ["(not diagnosed)"]
            if len(out) < 6:
                dpath = os.path.join(wd, f"d_{dev}_{fl}_{tidx}.ndjson")
                with open(dpath, "w", encoding="utf-8") as fh:
                    fh.write(json.dumps({"ev": tr["ev"]}) + "\n")
                dcfg = os.path.join(wd, f"d_{dev}_{fl}_{tidx}.cfg")
                cfgfile(dcfg, dev, fl, True)
                try:
                    d = tlc.run("LinkTrace", dcfg, workdir=os.path.join(wd, f"dv_{dev}_{fl}_{tidx}"), workers=1, deque=True,
                                env={"TRACE_FILE": dpath}, timeout=150)
                    names = sorted({m.group(2) for m in re.finditer(r'<<"CLAUSE", \d+, (\d+), "(\w+)">>', d.out)
                                    if int(m.group(1)) == upto}) or ["action-not-enabled"]
                except tlc.MachineryError:
                    pass            # the diagnosis is a hint; the verdict is the rejection
            out.append({"trace": tr, "index": upto, "clauses": names})
        return r, out
    with ThreadPoolExecutor(len(groups) or 1) as ex:
        for r, out in ex.map(one, list(groups.items())):
            stats["states"] += r.distinct
            stats["generated"] += r.generated
            rejections += out
    return rejections, stats


def run(tier):
    rep = common.Report(PID, tier)
    wd = common.workdir(PID)
    # ---- M
    for dev, fl in COMBOS:
        cfg = os.path.join(wd, f"mc_{dev}_{fl}.cfg")
        with open(cfg, "w", encoding="utf-8") as fh:
            fh.write(f'SPECIFICATION Spec\nCONSTANTS Dev = "{dev}"\n Fl = "{fl}"\n R = 3\n Slack = 1\n MaxConn = {2 if tier == "quick" else 3}\n'
                     f' MaxTime = {11 if tier == "quick" else 13}\n'
                     "INVARIANT MadeOncePerConnection\nINVARIANT LostOncePerLostConnection\nINVARIANT AtMostOneLiveLink\n"
                     "INVARIANT ReconnectAfterLoss\nINVARIANT RetryEveryR\nINVARIANT QuietAfterStop\nINVARIANT SilentDroppedInTime\n"
                     "PROPERTY AnsweredNeverDropped\nPROPERTY StoppedMeansNoNewLink\nCHECK_DEADLOCK FALSE\n")
        r = tlc.run("Link", cfg, workdir=os.path.join(wd, f"mc_{dev}_{fl}"), timeout=1800)
        if r.violation:
            raise tlc.MachineryError(f"Link.tla {dev}/{fl} violates {r.violation}\n{r.trace_text[:2000]}")
        tlc.must_ok(r, f"Link {dev}/{fl}")
        rep.add_tlc(f"Link_{dev}_{fl}", r)
    # ---- B
    jobs = []
    num = 25 if tier == "quick" else 400
    for dev, fl in COMBOS:
        beh = behaviours(wd, dev, fl, num, 16 if tier == "quick" else 22, common.seed() + 20)
        if dev == "tcp":
            beh += behaviours(wd, dev, fl, num, 26 if tier == "quick" else 40, common.seed() + 21, focus="watchdog")
        # a few scripted sequences around "the connection breaks right after it was made" (validated like the others)
        A = lambda a, d=0, ok=False: {"a": a, "d": d, "ok": ok}
        beh += [[A("Start"), A("Attempt", 0, True), A("ReadError"), A("Attempt", 0, True), A("Tick", 3), A("ReadError"),
                 A("Attempt", 0, False), A("Tick", 160), A("Attempt", 0, True), A("ReadError"), A("Attempt", 0, True), A("Tick", 1),
                 A("Stop"), A("Tick", 161), A("Tick", 1)],
                [A("Start"), A("Attempt", 0, False), A("Tick", 161), A("Attempt", 0, True), A("ReadError"), A("Attempt", 0, True),
                 A("ReadError"), A("Attempt", 0, True), A("Tick", 2), A("Stop"), A("Tick", 1), A("Tick", 1)]]
        for i, acts in enumerate(beh):
            jobs.append((dev, fl, acts, 2 * i if i >= len(beh) - 2 else i))
    rep.cov["behaviours_generated_by_tlc"] = len(jobs)
    with mp.get_context("fork").Pool(min(8, common.ncpu())) as pool:
        traces = pool.map(play, jobs, chunksize=2)
    rej, stats = validate(traces, os.path.join(wd, "val"))
    rep.cov["states"] += stats["states"]
    rep.cov["transitions"] += stats["generated"]
    rep.cov["traces_validated_against_impl"] = len(traces)
    rep.cov["evaluations"] = sum(len(t["ev"]) for t in traces)
    for t in traces:
        rep.nontrivial((t["cfg"]["dev"], t["cfg"]["fl"], json.dumps([(a["a"], a["d"], a["ok"]) for a in t["acts"]])))
    for r in rej:
        ev = r["trace"]["ev"][r["index"] - 1]
        # the environment event this (system) event belongs to
        cause = ev.get("cause", ev["a"])
        c = r["trace"]["cfg"]
        sig = {"clauses": r["clauses"], "event": "Attempt" if ev["a"] == "DialBegin" else ev["a"], "after": cause, "dev": c["dev"], "flavour": c["fl"]}
        rep.violation(sig, {"cfg": c, "actions": r["trace"]["acts"], "rejected_at": r["index"], "observation": ev["o"]})
    _double_reconnect(rep, wd, tier)
    rep.cov["rule"] = ("event sequences generated by TLC from LinkGen.tla (connect failures / successes, read errors, write errors, orderly "
                       "closes by the peer, probe answers, clock ticks of 1, 2, R-1, R, R+1, 2R+1, stop) played against the four real "
                       "gateway classes. Every trace is non-trivial; distinct by (device, flavour, action sequence).")
    if traces:
        t = traces[0]
        rep.sample({"cfg": t["cfg"], "actions": [(a["a"], a["d"], a["ok"]) for a in t["acts"]], "last_observation": t["ev"][-1]["o"] if t["ev"] else None})
    rep.assumptions += ["fake devices implement the documented behaviour of pyserial / sockets / asyncio transports (recv returns b'' after an "
                        "orderly close, close() of an asyncio transport calls connection_lost(None) later)",
                        "virtual clock: time.time / time.sleep as seen from the gateway modules; asyncio loop with a harness-driven clock"]
    return rep.finish()


def _double_reconnect(rep, wd, tier):
    """AtMostOneLiveLink under thread interleavings: the SendRace scenario 'read error + failing write' on the real code
    (line-level scheduler), checked by TLC against SendRace.tla's NoOrphanedConnection."""
    from . import c16
    from .sched import schedules
    scn = next(s for s in c16.SCENARIOS if s[0] == "lost_exc")
    probe = c16.execute(scn + ({},))
    acts = ["producer0", "pump", "reader", "connector"]
    runs = [c16.execute(scn + (sw,)) for sw in schedules(probe["steps"] + 4, acts, 1)]
    distinct = {}
    for x in runs:
        distinct.setdefault(json.dumps(x["ev"]), x)
    rep.cov["evaluations"] += len(runs)
    ts = list(distinct.values())
    path = os.path.join(wd, "dr.ndjson")
    with open(path, "w", encoding="utf-8") as fh:
        for t in ts:
            fh.write(json.dumps({"ev": t["ev"], "nproduced": t["nproduced"], "ndropped": t["ndropped"], "nleft": t["nleft"]}) + "\n")
    cfg = os.path.join(wd, "dr.cfg")
    with open(cfg, "w", encoding="utf-8") as fh:
        fh.write("SPECIFICATION TSpec\nCONSTANTS NMsgs = 2\n Snapshot = TRUE\n ClearFirst = TRUE\n LostExc = TRUE\n WithUser = FALSE\n WithStop = FALSE\n"
                 " WithLost = TRUE\n WithConnector = TRUE\n MaxConn = 4\nCONSTRAINT Track\nPOSTCONDITION Post\nCHECK_DEADLOCK FALSE\n")
    r = tlc.run("SendRaceTrace", cfg, workdir=os.path.join(wd, "dr"), workers=1, deque=True, env={"TRACE_FILE": path}, timeout=900)
    tlc.must_ok(r, "SendRaceTrace (double reconnect)")
    rep.cov["states"] += r.distinct
    rep.cov["transitions"] += r.generated
    m = re.search(r'"REJECTEDSET",\s*\{([^}]*)\}', r.out)
    m2 = re.search(r'"ORPHANSET",\s*\{([^}]*)\}', r.out)
    if not m or not m2:
        raise tlc.MachineryError("SendRaceTrace (double reconnect): no verdict\n" + r.out[-1500:])
    for i in [int(x) for x in m.group(1).replace("\n", " ").split(",") if x.strip()]:
        rep.violation({"kind": "not-a-behaviour-of-SendRace", "scenario": "lost_exc"}, {"switches": ts[i - 1]["switches"], "events": ts[i - 1]["ev"]})
    for i in [int(x) for x in m2.group(1).replace("\n", " ").split(",") if x.strip()]:
        rep.violation({"kind": "two-reconnects-for-one-loss", "flavour": "sync"},
                      {"scenario": "lost_exc", "switches": ts[i - 1]["switches"], "events": ts[i - 1]["ev"]})
    for k in distinct:
        rep.nontrivial(("dr", k))


def replay(path):
    with open(path, encoding="utf-8") as fh:
        d = json.load(fh)["replay"]
    t = play((d["cfg"]["dev"], d["cfg"]["fl"], d["actions"], 0))
    print(json.dumps([(e["a"], e["o"]) for e in t["ev"] if e["obs"]], indent=0)[:4000])
    return 0
