"""Drive real Gateway objects one spec action at a time and record trace events.

The projection reads attributes only; nothing is reconstructed from outputs.
Used by the Gateway-level checks (C01, C04..C08, C10, C11, C14, C19).
"""
import calendar
import json
import os
import time as _time

from .payload import Interner, describe, clamp_int

VERS = ["1.4", "1.5", "2.0", "2.1", "2.2"]


# ---------------------------------------------------------------- reference decoder (mirror of Wire.tla)
def ref_decode(line):
    """(wf, [n, c, cmd, ack, sub], payload) per spec/Wire.tla Decode."""
    fields = line.rstrip().split(";")
    if len(fields) != 6:
        return False, None, None
    try:
        hdr = [int(f) for f in fields[:5]]
    except ValueError:
        return False, None, None
    return True, hdr, fields[5]


def ref_parse_cmd(text):
    """Parse an emitted command string; returns (canonical?, hdr, payload)."""
    canonical = text.endswith("\n") and not text.endswith("\n\n") and "\r" not in text[-2:]
    body = text[:-1] if text.endswith("\n") else text
    fields = body.split(";")
    if len(fields) != 6:
        return False, None, body
    try:
        hdr = [int(f) for f in fields[:5]]
    except ValueError:
        return False, None, body
    if [str(x) for x in hdr] != fields[:5] or "\n" in fields[5]:
        canonical = False
    return canonical, hdr, fields[5]


class RecTransport:
    """Recording transport: what the gateway hands to transport.send."""

    def __init__(self):
        self.log = []
        self.protocol = None
        self.connect_task = None
        self.can_log = False

    def send(self, message):
        if message:
            self.log.append(message)

    def connect(self):
        return None

    def disconnect(self):
        # a line that was already read may still be handed over while the connection is being closed
        hook, self.on_disconnect = getattr(self, "on_disconnect", None), None
        if hook:
            hook()
        return None


class FakeTimer:
    """Stands in for threading.Timer as seen from mysensors.task (virtual time)."""
    armed = []

    def __init__(self, interval, function):
        self.interval = interval
        self.function = function
        self.cancelled = False

    def start(self):
        FakeTimer.armed.append(self)

    def cancel(self):
        self.cancelled = True
        if self in FakeTimer.armed:
            FakeTimer.armed.remove(self)


class Driver:
    """One gateway life (or several sharing a persistence file) under observation."""

    def __init__(self, version, flavour, interner, persistence_file=None, raising_cb=False, mqtt=False, no_callback=False, spelling=None,
                 real_link=False, tcp=False, react_fw=None, react_set=None):
        import mysensors
        import mysensors.handler
        import mysensors.task
        self.my = mysensors
        self.version = version
        # the configured string may be any spelling whose numeric floor is `version` (C18): the behaviour must not differ
        self.spelling = spelling or version
        self.flavour = flavour
        self.I = interner
        self.pfile = persistence_file
        self.raising_cb = raising_cb
        self.no_callback = no_callback      # gateway constructed without event_callback (cb observations are then empty)
        self.mqtt = mqtt
        # real_link: the library's own SyncTransport / AsyncTransport (and, threaded, the real _poll_queue loop) between the
        # gateway and a fake connection that can be down
        self.real_link = bool(real_link) and not mqtt
        # tcp: the TCP gateway classes (their own I_VERSION handler and watchdog state) with the recording transport put in
        # place of the socket transport
        self.tcp = bool(tcp) and not mqtt and not self.real_link
        self.wire = []
        self.linkup = True
        self.cb_log = []
        # react_fw = (type, version): the event callback calls gateway.update_fw(node, type, version) whenever a node or
        # one of its children is presented (an application scheduling firmware for whatever shows up)
        self.react_fw = tuple(react_fw) if react_fw else None
        self.reacted = None
        # react_set = [value type, value, ack]: the event callback answers about every second SET report with
        # gateway.set_child_value(node, child, type, value) for the reporting node and child (an application pushing a command back)
        self.react_set = list(react_set) if react_set else None
        self.reacted_set = None
        self.react_once = None          # the same, armed by a replayed TLC behaviour for the step it names
        self.react_once_fw = None       # likewise for the update_fw reaction
        self.hung = False               # a re-entrant call did not come back (see _reenter)
        self.reacting_fw = None
        self.events = []
        self.ops = []
        self.lines = {}
        self.nlines = 0
        self.now = 1700000000
        # the controller's LOCAL clock runs tzoff seconds ahead of UTC: a time reply must carry local time
        self.tzoff = (hash((version, flavour, bool(persistence_file), raising_cb)) % 25 - 12) * 3600
        self.nows = {str(self.now + self.tzoff)}
        self.alive = True
        # clock as seen from the handlers
        drv = self

        class _T:
            @staticmethod
            def localtime(*a):
                return _time.gmtime(drv.now + drv.tzoff)

            @staticmethod
            def gmtime(*a):
                return _time.gmtime(drv.now)

            @staticmethod
            def time():
                return float(drv.now)
        mysensors.handler.time = _T
        mysensors.task.threading.Timer = FakeTimer   # virtual timer (only used with persistence)
        self.aproxy = None
        if flavour == "async" and persistence_file:
            from .pdrv import AsyncioProxy
            self.aproxy = AsyncioProxy()             # asyncio.sleep of the save loop parks on a future the harness releases
            mysensors.task.asyncio = self.aproxy
        else:
            import asyncio as _asyncio
            mysensors.task.asyncio = _asyncio
        self.gw = None
        self.pers_started = False
        self._new_gateway()

    def _loop(self):
        import asyncio
        if getattr(self, "_evloop", None) is None:
            self._evloop = asyncio.new_event_loop()
        return self._evloop

    def close(self):
        if getattr(self, "_evloop", None) is not None:
            self._evloop.close()
            self._evloop = None

    # ------------------------------------------------------------ construction
    def _new_gateway(self):
        my = self.my
        self.tr = RecTransport()
        kw = {"protocol_version": self.spelling}
        if not self.no_callback:
            kw["event_callback"] = self._callback
        if self.pfile:
            kw.update(persistence=True, persistence_file=self.pfile)
        if self.mqtt:
            from mysensors import gateway_mqtt
            cls = gateway_mqtt.MQTTGateway if self.flavour == "sync" else gateway_mqtt.AsyncMQTTGateway
            self.pubs, self.subs = [], []
            drv = self

            def pub(topic, payload, qos, retain):
                drv.pubs.append((topic, payload, qos, retain))
                if drv.raising_cb:
                    raise RuntimeError("publish callback raises (harness)")

            def sub(topic, callback, qos):
                drv.subs.append((topic, qos))
                if drv.raising_cb:
                    raise RuntimeError("subscribe callback raises (harness)")
            self.gw = cls(pub, sub, in_prefix="mys-in", out_prefix="mys-out", **kw)
            real = self.gw.tasks.transport
            orig_send = real.send

            def send(message):
                if message:
                    drv.tr.log.append(message)     # what the gateway handed to transport.send
                orig_send(message)
            real.send = send
        elif self.real_link:
            import mysensors.transport as TR
            import mysensors.task as TASK
            drv = self
            base = my.BaseSyncGateway if self.flavour == "sync" else my.BaseAsyncGateway
            tcls = TR.SyncTransport if self.flavour == "sync" else TR.AsyncTransport

            class LinkGateway(base):
                def __init__(gself, **kwargs):
                    super().__init__(tcls(gself, lambda t: None), **kwargs)

            class Conn:
                """The connection object a reader thread / asyncio would hand to the protocol."""
                is_open = True

                def __init__(cself):
                    cself.serial = cself

                def write(cself, data):
                    drv.wire.append(data.decode("utf-8"))

                def close(cself):
                    cself.is_open = False

            class PumpTime:
                time = staticmethod(_time.time)

                @staticmethod
                def sleep(d):
                    return None
            TASK.time = PumpTime
            self.gw = LinkGateway(**kw)
            real = self.gw.tasks.transport
            self.conn = Conn()
            real.protocol.transport = self.conn if self.linkup else None
            orig_send, orig_disc = real.send, real.disconnect

            def send(message):
                if message:
                    drv.tr.log.append(message)     # what the gateway handed to transport.send
                return orig_send(message)

            def disconnect():
                drv.tr.disconnect()                 # (the in-flight hook of stop_restart)
                return orig_disc()
            real.send, real.disconnect = send, disconnect
        elif self.tcp:
            from mysensors import mysensors as api
            cls = api.TCPGateway if self.flavour == "sync" else api.AsyncTCPGateway
            self.gw = cls("127.0.0.1", **kw)
            self.gw.tasks.transport = self.tr
        else:
            cls = my.BaseSyncGateway if self.flavour == "sync" else my.BaseAsyncGateway
            self.gw = cls(self.tr, **kw)
        FakeTimer.armed = []
        self.pers_started = False

    def _seen(self):
        """What an event callback can see of the network: the tree, and per node the reboot flag and the desired values (not the
        hold queues: replies are routed after the handler has returned)."""
        return json.dumps([self._tree(), [t[:3] for t in self._trans()]], sort_keys=True)

    def _reenter(self, call):
        """A controller call made from inside the event callback, on the thread that is handling the message.  A library that
        blocks on itself there (a lock that message handling already holds) would hang the check: the call is given 5 s of wall
        clock (it normally takes well under a millisecond), after which the step is recorded as hung - the specification rejects it -
        and this driver makes no further re-entrant calls."""
        import signal
        import threading

        class _Hang(BaseException):
            pass
        if threading.current_thread() is not threading.main_thread():
            return call()

        def on_alarm(signum, frame):
            raise _Hang()
        old = signal.signal(signal.SIGALRM, on_alarm)
        signal.setitimer(signal.ITIMER_REAL, 5.0)
        try:
            return call()
        except _Hang:
            self.hung = True
            self.react_set = self.react_fw = self.react_once = self.react_once_fw = None
            return None
        finally:
            signal.setitimer(signal.ITIMER_REAL, 0)
            signal.signal(signal.SIGALRM, old)

    def _callback(self, msg):
        seen = self._seen()
        entry = [self._msg_fields(msg), seen]
        self.cb_log.append(entry)
        fw = self.react_once_fw or self.react_fw
        if fw and int(msg.type) == 0:
            self.reacting_fw = tuple(fw)
            # re-entry: a controller call from inside the event callback
            try:
                if self.flavour == "async":
                    loop = self._loop()
                    if loop.is_running():
                        raise RuntimeError("inside the running loop (stop() in progress): the coroutine cannot be awaited here")
                    self._reenter(lambda: loop.run_until_complete(self.gw.update_fw(msg.node_id, fw[0], fw[1])))
                else:
                    self._reenter(lambda: self.gw.update_fw(msg.node_id, fw[0], fw[1]))
                self.reacted = int(msg.node_id)
            except Exception:  # pylint: disable=broad-except
                pass            # no reaction took place
            entry[1] = self._seen()     # what the callback leaves behind is what the step must end with
        # (a SET report, or the presentation of a child - unless this callback has already scheduled firmware: one call per step)
        if ((int(msg.type) == 1 or (int(msg.type) == 0 and int(msg.child_id) != 255 and not (fw and self.reacted is not None)
                                    and not self.react_once_fw))
                and (self.react_once or (self.react_set and self._react_now(msg)))):
            import voluptuous as vol
            t2, v2, a2 = self.reacting = self.react_once or self.react_set
            try:
                if a2:
                    self._reenter(lambda: self.gw.set_child_value(msg.node_id, msg.child_id, t2, v2, ack=a2))
                else:
                    self._reenter(lambda: self.gw.set_child_value(msg.node_id, msg.child_id, t2, v2))
                self.reacted_set = "none"
            except (ValueError, vol.Invalid):
                self.reacted_set = "refused"
            except Exception as exc:  # pylint: disable=broad-except
                self.reacted_set = "raised:" + type(exc).__name__
            entry[1] = self._seen()
        if self.raising_cb:
            # what escapes an application's callback is anything: its own bug (KeyError on an unknown node id, RuntimeError), or
            # the refusal of a command it tried to send (ValueError, voluptuous.Invalid) - alert() must treat them all alike
            import voluptuous as vol
            import zlib
            kinds = (RuntimeError, ValueError, KeyError, vol.Invalid, vol.MultipleInvalid, TypeError)
            k = zlib.crc32(repr(self._msg_fields(msg)).encode("utf-8", "replace")) % len(kinds)
            if kinds[k] is vol.MultipleInvalid:
                raise vol.MultipleInvalid([vol.Invalid("callback raises (harness)")])
            raise kinds[k]("callback raises (harness)")

    @staticmethod
    def _react_now(msg):
        """Stateless and deterministic (replays make the same decisions): about half of the reports are answered."""
        import zlib
        return zlib.crc32(repr((int(msg.node_id), int(msg.child_id), int(msg.sub_type), str(msg.payload))).encode("utf-8", "replace")) % 2 == 0

    def _rx(self):
        if self.reacted_set is not None:
            t2, v2, a2 = self.reacting
            rx = {"on": True, "kind": "set", "n": 0, "f": [0, 0], "t": t2, "v": describe(str(v2), self.I), "a": a2, "exc": self.reacted_set}
        else:
            rx = {"on": self.reacted is not None, "kind": "fw", "n": self.reacted or 0, "f": list(self.reacting_fw or self.react_fw or (0, 0)),
                  "t": 0, "v": describe("", self.I), "a": 0, "exc": "none"}
        self.reacted = None
        self.reacted_set = None
        return rx

    # ------------------------------------------------------------ projection
    def tok(self, x):
        if x is None:
            return "~NULL"
        return self.I.tok(x if isinstance(x, str) else str(x))

    @staticmethod
    def _key(k):
        if isinstance(k, bool) or not isinstance(k, int):
            return 100000 + (hash(repr(k)) % 1000)
        return clamp_int(k)

    def _msg_fields(self, msg):
        def iv(x):
            try:
                return clamp_int(int(x))
            except (TypeError, ValueError):
                return -99999
        return [iv(msg.node_id), iv(msg.child_id), iv(msg.type), iv(msg.ack), iv(msg.sub_type), self.tok(msg.payload)]

    def _tree(self, sensors=None):
        sensors = self.gw.sensors if sensors is None else sensors
        out = []
        for nid in sorted(sensors, key=self._key):
            s = sensors[nid]
            kids = []
            for cid in sorted(s.children, key=self._key):
                ch = s.children[cid]
                vals = [[self._key(t), self.tok(v)] for t, v in sorted(ch.values.items(), key=lambda kv: self._key(kv[0]))]
                kids.append([self._key(cid), -1 if ch.type is None else clamp_int(int(ch.type)), self.tok(ch.description), vals])
            out.append([self._key(nid), -1 if s.type is None else clamp_int(int(s.type)), self.tok(s.protocol_version),
                        clamp_int(int(s.battery_level)), self.tok(s.sketch_name), self.tok(s.sketch_version),
                        self.tok(s.heartbeat), kids])
        return out

    def _cmd(self, text):
        if not isinstance(text, str):
            # only command strings may be queued, held back or handed to the transport: anything else is projected as an
            # unparsable command (the trace is then judged by the specification, the projector does not fall over)
            text = "~~not-a-string:" + type(text).__name__
        canon, hdr, payload = ref_parse_cmd(text)
        if hdr is None:
            return [-99999, -99999, -99999, -99999, -99999, self.tok(text)]
        hdr = [clamp_int(x) for x in hdr]
        special = None
        if hdr[2] == 4 and hdr[4] in (1, 3):
            special = self._stream_token(hdr[4], payload)
        elif hdr[2] == 3 and hdr[4] == 1 and payload in self.nows:
            special = "@now"
        if not canon:
            return hdr + ["~~noncanonical"]
        return hdr + [special if special is not None else self.tok(payload)]

    @staticmethod
    def _stream_token(sub, payload):
        import binascii
        try:
            raw = binascii.unhexlify(payload)
            w = [raw[i] | (raw[i + 1] << 8) for i in range(0, len(raw) - 1, 2)]
            if sub == 1 and len(raw) == 8:
                return f"cfg:{w[0]}:{w[1]}"
            if sub == 3 and 6 <= len(raw) <= 22:
                return f"blk:{w[0]}:{w[1]}:{w[2]}"
        except (binascii.Error, ValueError):
            pass
        return "~~badstream"

    def _trans(self):
        out = []
        sensors = self.gw.sensors
        for nid in sorted(sensors, key=self._key):
            s = sensors[nid]
            des = []
            for cid in sorted(s.new_state, key=self._key):
                ch = s.new_state[cid]
                des.append([self._key(cid), [[self._key(t), self.tok(v)] for t, v in
                                              sorted(ch.values.items(), key=lambda kv: self._key(kv[0]))]])
            out.append([self._key(nid), bool(s.reboot), des, [self._cmd(x) for x in s.queue]])
        return out

    def _jobs(self):
        out = []
        for func, args in self.gw.tasks.queue:
            if getattr(func, "__self__", None) is self.gw and getattr(func, "__name__", "") == "logic":
                out.append(["L", self.lines.get(args[0], -1)])
            elif self.pure_job(func):
                try:
                    out.append(["E", self._cmd(func(*args))])
                except Exception as exc:  # pylint: disable=broad-except
                    out.append(["E", [-99999] * 5 + [self.tok("job raises " + type(exc).__name__)]])
            else:
                # a job of a kind the library does not queue today: it is not run just to look at it (it may have effects)
                out.append(["E", [-99999] * 5 + [self.tok("job " + getattr(func, "__name__", type(func).__name__))]])
        return out

    @staticmethod
    def pure_job(func):
        """Jobs whose result can be computed for the projection without changing anything: Message.encode and str."""
        return func is str or (getattr(func, "__name__", "") == "encode" and type(getattr(func, "__self__", None)).__name__ == "Message")

    def state(self):
        ota = self.gw.tasks.ota
        sess = []
        for store, name in ((ota.requested, "requested"), (ota.unstarted, "unstarted"), (ota.started, "started")):
            for nid, fw in store.items():
                sess.append([self._key(nid), name, fw[0], fw[1]])
        sess.sort()
        pers = self.gw.tasks.persistence
        return {"tree": self._tree(), "trans": self._trans(), "sess": sess,
                "fw": sorted([list(k) for k in ota.firmware]), "jobs": self._jobs(),
                "metric": bool(self.gw.metric), "dirty": bool(pers.need_save) if pers else False}

    def disk_view(self):
        """What a fresh gateway restores from the persistence file (observer = safe_load_sensors)."""
        my = self.my
        if not self.pfile:
            return {"file": False, "tree": []}
        exists = os.path.exists(self.pfile)
        g = my.BaseSyncGateway(RecTransport(), persistence=True, persistence_file=self.pfile,
                               protocol_version=self.version)
        import shutil
        import tempfile
        # load from a copy: safe_load may promote/remove files
        d = tempfile.mkdtemp(prefix="vdisk", dir=os.path.dirname(self.pfile))
        try:
            base = os.path.basename(self.pfile)
            for suffix in ("", ".bak"):
                if os.path.exists(self.pfile + suffix):
                    shutil.copy(self.pfile + suffix, os.path.join(d, base + suffix))
            g.tasks.persistence.persistence_file = os.path.join(d, base)
            g.tasks.persistence.persistence_bak = os.path.join(d, base + ".bak")
            g.tasks.persistence.safe_load_sensors()
        finally:
            shutil.rmtree(d, ignore_errors=True)
        return {"file": exists, "tree": self._tree(g.sensors)}

    # ------------------------------------------------------------ events
    def _emit_event(self, ev, raised, with_disk=False):
        try:
            return self._emit_event_inner(ev, raised, with_disk)
        except Exception as exc:  # pylint: disable=broad-except
            # The library's state has a shape the projector cannot read (on the unchanged code this never happens): the
            # event is recorded as unobservable and the specification rejects the trace there, instead of the check dying.
            del self.tr.log[:]
            del self.cb_log[:]
            del self.wire[:]
            bad = {"a": ev.get("a", "?"), "unobservable": True, "why": f"{type(exc).__name__}: {exc}"[:200], "out": [], "cb": [],
                   "exc": "none", "raised": False, "alive": self.alive, "hasdisk": False, "haswire": False, "linkup": True, "wire": [],
                   "outp": [], "rawout": [], "st": {"tree": [], "trans": [], "sess": [], "fw": [], "jobs": [], "metric": True, "dirty": True},
                   "disk": {"file": False, "tree": []}, "hang": self.hung}
            self.reacted = None
            self.reacted_set = None
            bad["rx"] = self._rx()
            for k, v in ev.items():
                bad.setdefault(k, v)
            self.events.append(bad)
            return bad

    def _emit_event_inner(self, ev, raised, with_disk=False):
        ev["unobservable"] = False
        ev["hang"] = self.hung
        self.hung = False
        ev["rx"] = self._rx()
        ev["out"] = [self._cmd(x) for x in self.tr.log]
        ev["rawout"] = list(self.tr.log)
        ev["outp"] = [describe(ref_parse_cmd(x)[2] if isinstance(x, str) else "", self.I) for x in self.tr.log]
        post_tree = self._seen()
        ev["cb"] = [f + [1 if seen == post_tree else 0] for f, seen in self.cb_log]
        ev["haswire"] = self.real_link
        ev["linkup"] = self.linkup
        ev["wire"] = [self._cmd(x) for x in self.wire]
        del self.wire[:]
        ev["raised"] = bool(raised)
        ev["raisedtype"] = raised or ""
        ev["alive"] = self.alive
        ev["st"] = self.state()
        ev["hasdisk"] = bool(with_disk)
        ev["disk"] = self.disk_view() if with_disk else {"file": False, "tree": []}
        ev.setdefault("exc", "none")
        del self.tr.log[:]
        del self.cb_log[:]
        self.events.append(ev)
        return ev

    def line_rec(self, line):
        wf, hdr, payload = ref_decode(line)
        if line not in self.lines:
            self.nlines += 1
            self.lines[line] = self.nlines
        lid = self.lines[line]
        if not wf:
            return {"id": lid, "wf": False, "h": {"n": 0, "c": 0, "cmd": 0, "ack": 0, "sub": 0},
                    "p": describe("", self.I), "text": line}
        h = dict(zip(["n", "c", "cmd", "ack", "sub"], [clamp_int(x) for x in hdr]))
        return {"id": lid, "wf": True, "h": h, "p": describe(payload, self.I), "text": line}

    def recv(self, line, now=None):
        """A complete line arrives (what BaseMySensorsProtocol.handle_line does)."""
        if now is not None:
            self.now = now
            self.nows.add(str(now + self.tzoff))
        rec = self.line_rec(line)
        self.ops.append(["recv", line, self.now])
        raised = None
        try:
            self.gw.tasks.add_job(self.gw.logic, line)
        except Exception as exc:  # pylint: disable=broad-except
            raised = type(exc).__name__
            self.alive = False
        return self._emit_event({"a": "Recv", "l": rec}, raised)

    def pump(self):
        """One iteration of SyncTasks._poll_queue: run a job, send its reply."""
        raised = None
        self.ops.append(["pump"])
        try:
            if self.real_link:
                self._one_real_round()
            else:
                reply = self.gw.tasks.run_job()
                self.gw.tasks.transport.send(reply)
        except Exception as exc:  # pylint: disable=broad-except
            raised = type(exc).__name__
            self.alive = False
        return self._emit_event({"a": "Pump"}, raised)

    def _one_real_round(self):
        """Exactly one round of the real SyncTasks._poll_queue: the second call of run_job raises the stop flag instead of
        taking a job, so the loop ends at its next test."""
        tasks = self.gw.tasks
        real_run_job = tasks.run_job
        calls = []

        def run_job(job=None):
            calls.append(1)
            if len(calls) > 1:
                tasks._stop_event.set()
                return None
            return real_run_job(job)
        tasks.run_job = run_job
        try:
            tasks._stop_event.clear()
            tasks._poll_queue()
        finally:
            del tasks.run_job
            tasks._stop_event.clear()

    def link(self, up):
        """The connection to the gateway device goes away / comes back (what connection_lost / connection_made leave behind).
        Not an action of Gateway.tla: the following events carry the link state."""
        self.ops.append(["link", bool(up)])
        self.linkup = bool(up)
        if self.real_link:
            proto = self.gw.tasks.transport.protocol
            if proto is not None:
                # through the protocol's own hooks, as a reader thread / the event loop would do it
                if up:
                    proto.connection_made(self.conn)
                elif proto.transport is not None:
                    proto.connection_lost(None)
            # whatever the hooks wrote belongs to the next event's wire observation

    def set_child(self, n, c, t, value, ack=0, key_as_str=False):
        import voluptuous as vol
        exc_name = "none"
        raised = None
        tkey = str(t) if key_as_str else t
        self.ops.append(["set_child", n, c, t, value, ack, key_as_str])
        try:
            if ack:
                self.gw.set_child_value(n, c, tkey, value, ack=ack)
            else:
                self.gw.set_child_value(n, c, tkey, value)
        except (ValueError, vol.Invalid):
            exc_name = "refused"
        except Exception as exc:  # pylint: disable=broad-except
            exc_name = "raised:" + type(exc).__name__
        ev = {"a": "SetChild", "n": n, "c": c, "t": t, "v": describe(str(value), self.I), "ack": ack,
              "exc": exc_name, "keystr": key_as_str}
        return self._emit_event(ev, raised)

    def set_child_raw(self, n, c, t, value):
        """set_child_value with an unusable value type (not an integer): must be refused or ignored, never
        accepted; recorded as a call that may only be refused / have no effect (spec: value type -1)."""
        import voluptuous as vol
        exc_name = "none"
        self.ops.append(["set_child_raw", n, c, repr(t), repr(value)])
        try:
            self.gw.set_child_value(n, c, t, value)
        except (ValueError, vol.Invalid):
            exc_name = "refused"
        except Exception as exc:  # pylint: disable=broad-except
            exc_name = "raised:" + type(exc).__name__
        ev = {"a": "SetChild", "n": n, "c": c, "t": -1, "v": describe(str(value), self.I), "ack": 0,
              "exc": exc_name, "keystr": False}
        return self._emit_event(ev, None)

    def update_fw(self, nids, ftype, fver, image_path=None):
        raised = None
        self.ops.append(["update_fw", nids, ftype, fver, image_path])
        try:
            if self.flavour == "async":
                self._loop().run_until_complete(self.gw.update_fw(nids, ftype, fver, image_path))
            else:
                self.gw.update_fw(nids, ftype, fver, image_path)
        except Exception as exc:  # pylint: disable=broad-except
            raised = type(exc).__name__
        lst = nids if isinstance(nids, list) else [nids]
        bad = (image_path is not None and not str(image_path).endswith("fw.hex")) or not isinstance(ftype, int) or not isinstance(fver, int)
        f = [ftype if isinstance(ftype, int) else -1, fver if isinstance(fver, int) else -1]
        return self._emit_event({"a": "UpdateFw", "nids": lst, "f": f, "img": image_path is not None, "bad": bad}, raised)

    def send(self, text):
        """Gateway.send: the public way to hand a ready-made command to the transport."""
        raised = None
        self.ops.append(["send", text])
        try:
            self.gw.send(text)
        except Exception as exc:  # pylint: disable=broad-except
            raised = type(exc).__name__
        return self._emit_event({"a": "Send"}, raised)

    def set_metric(self, b):
        self.ops.append(["set_metric", bool(b)])
        self.gw.metric = b
        return self._emit_event({"a": "Metric", "b": bool(b)}, None)

    def _until_parked(self):
        import asyncio

        async def wait():
            try:
                await asyncio.wait_for(self.aproxy.parked.wait(), 2)
            except asyncio.TimeoutError:
                pass
        return wait()

    def start_persistence(self):
        raised = None
        self.ops.append(["start_persistence"])
        try:
            if self.flavour == "async":
                import asyncio

                async def go():
                    self.aproxy.parked = asyncio.Event()
                    await self.gw.start_persistence()
                    await self._until_parked()
                self._loop().run_until_complete(go())
            else:
                self.gw.start_persistence()
        except Exception as exc:  # pylint: disable=broad-except
            raised = type(exc).__name__
        self.pers_started = True
        return self._emit_event({"a": "StartPersist"}, raised, with_disk=True)

    def tick(self):
        raised = None
        self.ops.append(["tick"])
        timers = list(FakeTimer.armed)
        try:
            if self.flavour == "async":
                import asyncio
                timers = [f for f in self.aproxy.sleepers if not f.done()]

                async def go():
                    self.aproxy.parked = asyncio.Event()
                    for f in timers:
                        f.set_result(None)
                    self.aproxy.sleepers = [f for f in self.aproxy.sleepers if not f.done()]
                    if timers:
                        await self._until_parked()
                self._loop().run_until_complete(go())
            else:
                for t in timers:
                    FakeTimer.armed.remove(t)
                    t.function()
        except Exception as exc:  # pylint: disable=broad-except
            raised = type(exc).__name__
        return self._emit_event({"a": "Tick", "timers": len(timers)}, raised, with_disk=True)

    def stop_restart(self, inflight=None):
        """stop() and a new gateway object on the same file. inflight: a line that is delivered (and pumped) while
        stop() is disconnecting the transport - it is handled before the stop completes, so it must be persisted."""
        raised = None
        if inflight is not None:
            def deliver():
                n = len(self.ops)
                self.recv(inflight)
                while self.flavour == "sync" and self.gw.tasks.queue:
                    self.pump()
                del self.ops[n:]          # replay re-creates these steps from the stop_restart op itself
            self.tr.on_disconnect = deliver
        self.ops.append(["stop_restart", inflight])
        try:
            if self.flavour == "async":
                self._loop().run_until_complete(self.gw.stop())
                self.aproxy.sleepers = [f for f in self.aproxy.sleepers if not f.done()]
            else:
                self.gw.stop()
        except Exception as exc:  # pylint: disable=broad-except
            raised = type(exc).__name__
        armed_after = len(FakeTimer.armed) if self.flavour == "sync" else len(self.aproxy.sleepers)
        self._new_gateway()
        ev = self._emit_event({"a": "StopRestart", "armed_after_stop": armed_after}, raised, with_disk=True)
        return ev

    def stop_same(self):
        """stop() of a gateway object that will be started again (asyncio MQTT gateway only: its transport survives)."""
        raised = None
        self.ops.append(["stop_same"])
        try:
            self._loop().run_until_complete(self.gw.stop())
            if self.aproxy:
                self.aproxy.sleepers = [f for f in self.aproxy.sleepers if not f.done()]
        except Exception as exc:  # pylint: disable=broad-except
            raised = type(exc).__name__
        self.pers_started = False
        return self._emit_event({"a": "StopSame"}, raised, with_disk=True)

    def snapshot(self, scratch):
        """C11: save the live state in both formats (scratch files), load each into a fresh gateway."""
        import shutil
        import tempfile
        my = self.my
        self.ops.append(["snapshot"])
        d = tempfile.mkdtemp(prefix="snap", dir=scratch)
        res = {}
        raised = None
        try:
            for ext in ("json", "pickle"):
                path = os.path.join(d, "state." + ext)
                try:
                    from mysensors.persistence import Persistence
                    Persistence(self.gw.sensors, lambda f: f, persistence_file=path).save_sensors()
                    g = my.BaseSyncGateway(RecTransport(), persistence=True, persistence_file=path,
                                           protocol_version=self.version)
                    if len(self.ops) % 2:
                        # the loading gateway already knows some of the nodes (bare, flagged for reboot): a load restores the
                        # saved node all the same
                        for nid in list(self.gw.sensors)[::2]:
                            g.add_sensor(nid)
                            g.sensors[nid].reboot = True
                    g.start_persistence()
                    keep, self.gw = self.gw, g
                    try:
                        res[ext] = {"tree": self._tree(), "trans": self._trans()}
                    finally:
                        self.gw = keep
                    g.stop()
                except Exception as exc:  # pylint: disable=broad-except
                    raised = f"{ext}:{type(exc).__name__}"
                    res[ext] = {"tree": [], "trans": []}
        finally:
            shutil.rmtree(d, ignore_errors=True)
            FakeTimer.armed = [t for t in FakeTimer.armed if getattr(t.function, "__self__", None) is None] \
                if False else FakeTimer.armed
        ev = {"a": "Snapshot", "json": res["json"], "pickle": res["pickle"]}
        return self._emit_event(ev, raised)

    def trace(self, meta=None):
        return {"cfg": {"ver": self.version, "flavour": self.flavour, "raising_cb": self.raising_cb,
                        "persist": bool(self.pfile), "mqtt": self.mqtt, "no_callback": self.no_callback, "spelling": self.spelling,
                        "real_link": self.real_link, "tcp": self.tcp, "react_fw": self.react_fw, "react_set": self.react_set, **(meta or {})}, "ev": self.events, "ops": self.ops}


def replay_ops(cfg, ops, persistence_file=None):
    """Re-execute a recorded history against the current tree; returns the new trace."""
    drv = Driver(cfg["ver"], cfg["flavour"], Interner(), persistence_file=persistence_file,
                 raising_cb=cfg.get("raising_cb", False), mqtt=cfg.get("mqtt", False), no_callback=cfg.get("no_callback", False), spelling=cfg.get("spelling"),
                 real_link=cfg.get("real_link", False), tcp=cfg.get("tcp", False), react_fw=cfg.get("react_fw"), react_set=cfg.get("react_set"))
    for op in ops:
        k = op[0]
        if k == "react_once":
            drv.react_once = op[1]          # holds for the next step only
            continue
        if k == "react_once_fw":
            drv.react_once_fw = op[1]
            continue
        if k == "link":
            drv.link(op[1])
        elif k == "send":
            drv.send(op[1])
        elif k == "stop_same":
            drv.stop_same()
        elif k == "recv":
            drv.recv(op[1], now=op[2])
        elif k == "pump":
            drv.pump()
        elif k == "drain":
            while drv.flavour == "sync" and drv.gw.tasks.queue:
                drv.pump()
        elif k == "set_child":
            drv.set_child(op[1], op[2], op[3], op[4], ack=op[5], key_as_str=op[6])
        elif k == "update_fw":
            drv.update_fw(op[1], op[2], op[3], op[4])
        elif k == "set_metric":
            drv.set_metric(op[1])
        elif k == "start_persistence":
            drv.start_persistence()
        elif k == "tick":
            drv.tick()
        elif k == "stop_restart":
            drv.stop_restart(op[1] if len(op) > 1 else None)
        elif k == "snapshot":
            import tempfile
            drv.snapshot(tempfile.gettempdir())
        elif k == "set_child_raw":
            pass
        drv.react_once = drv.react_once_fw = None
    drv.close()
    return drv.trace(cfg)
