"""C13 - start-up survives damaged persistence files.

M: TLC checks LoadTotalAndWhole on Persist.tla's LoadRes for all content-class combinations.
B: real files (both formats, several reachable states) are truncated at EVERY byte offset,
   emptied and zero-filled, each combined with a backup that is absent / intact / damaged;
   start_persistence() and safe_load_sensors() of fresh gateways are run on them and each
   observed (raised?, loaded state) is validated by TLC against LoadRes (PersistLoad.tla).
"""
import json
import multiprocessing as mp
import os
import random
import shutil

from . import common, tlc
from .c03 import _parse_bad
from .gwdrv import RecTransport, FakeTimer

PID = "C13"


def _tree(sensors):
    out = []
    for nid in sorted(sensors):
        s = sensors[nid]
        kids = [[cid, ch.type, ch.description, sorted([[str(k), str(v)] for k, v in ch.values.items()])]
                for cid, ch in sorted(s.children.items())]
        out.append([nid, s.type, s.protocol_version, s.battery_level, s.sketch_name, s.sketch_version, s.heartbeat, kids])
    return json.dumps(out)


def _make_state(rng, k):
    import mysensors
    gw = mysensors.BaseSyncGateway(RecTransport(), protocol_version="2.2")
    lines = [f"{k};255;0;0;17;2.{k}.0", f"{k};0;0;0;16;light {k} é", f"{k};0;1;0;23;4{k}", f"{k};255;3;0;11;sketch{k}",
             f"{k + 5};255;0;0;18;2.1", f"{k + 5};3;0;0;3;ünï \"q\" \\", f"{k + 5};3;1;0;2;1", f"{k};255;3;0;0;7{k}"]
    for _ in range(rng.randint(0, 4)):
        n = rng.choice([k, k + 5, 200 + k])
        lines.append(f"{n};255;0;0;17;2.0")
        lines.append(f"{n};{rng.randint(0, 9)};0;0;{rng.randint(0, 20)};d{rng.randint(0, 99)}")
    for ln in lines:
        gw.logic(ln + "\n")
    return gw


def _work(args):
    import logging
    logging.disable(logging.CRITICAL)
    import mysensors
    import mysensors.task
    mysensors.task.threading.Timer = FakeTimer
    (d, ext, main_bytes, bak_bytes, mclass, bclass, entry, trees) = args
    os.makedirs(d, exist_ok=True)
    path = os.path.join(d, "state." + ext)
    if (len(main_bytes or b"") + len(bak_bytes or b"")) % 2:
        # the persistence file configured as a bare file name in the working directory (the library's default is one)
        os.chdir(d)
        path = "state." + ext
    for p in (path, path + ".bak"):
        if os.path.exists(p):
            os.remove(p)
    if main_bytes is not None:
        with open(path, "wb") as fh:
            fh.write(main_bytes)
    if bak_bytes is not None:
        with open(path + ".bak", "wb") as fh:
            fh.write(bak_bytes)
    raised = 0
    if entry == 2:
        gw, raised = _async_start(mysensors, path)
    else:
        gw = mysensors.BaseSyncGateway(RecTransport(), persistence=True, persistence_file=path, protocol_version="2.2")
        try:
            if entry == 0:
                gw.tasks.persistence.safe_load_sensors()
            else:
                FakeTimer.armed = []
                gw.start_persistence()
        except Exception:  # pylint: disable=broad-except
            raised = 1
    loaded = trees.get(_tree(gw.sensors), -3)
    ma, ba = int(os.path.exists(path)), int(os.path.exists(path + ".bak"))
    for p in (path, path + ".bak", os.path.join(d, "state.tmp." + ext)):
        if os.path.exists(p):
            os.remove(p)
    return [mclass, bclass, raised, loaded, ma, ba]


def _async_start(mysensors, path):
    """start_persistence() of the asyncio gateway on an event loop whose executor jobs take a few loop iterations and, when
    several are pending at the same time, finish latest-first (threads race; in the unchanged code start-up never has two)."""
    import asyncio
    import mysensors.task
    from .pdrv import AsyncioProxy

    class Loop(asyncio.SelectorEventLoop):
        pend = None

        def run_in_executor(self, executor, func, *args):
            fut = self.create_future()
            self.pend = (self.pend or []) + [(fut, func, args)]
            self._later(6)
            return fut

        def _later(self, k):
            self.call_soon(self._later, k - 1) if k else self._drain()

        def _drain(self):
            while self.pend:
                fut, func, args = self.pend.pop()
                if fut.cancelled():
                    continue
                try:
                    fut.set_result(func(*args))
                except Exception as exc:  # pylint: disable=broad-except
                    fut.set_exception(exc)
    proxy = AsyncioProxy()
    keep = mysensors.task.asyncio
    mysensors.task.asyncio = proxy
    loop = Loop()
    raised = 0
    gw = mysensors.BaseAsyncGateway(RecTransport(), persistence=True, persistence_file=path, protocol_version="2.2")

    async def go():
        await gw.start_persistence()
        for _ in range(40):
            await asyncio.sleep(0)          # the first scheduled save runs to its sleep
    try:
        loop.run_until_complete(go())
    except Exception:  # pylint: disable=broad-except
        raised = 1
    finally:
        try:
            pending = [t for t in asyncio.all_tasks(loop) if not t.done()]
            for t in pending:
                t.cancel()
            if pending:
                loop.run_until_complete(asyncio.gather(*pending, return_exceptions=True))
        except Exception:  # pylint: disable=broad-except
            pass
        loop.close()
        mysensors.task.asyncio = keep
    return gw, raised


def run(tier):
    rep = common.Report(PID, tier)
    wd = common.workdir(PID)
    rng = random.Random(common.seed() + 13)
    from mysensors.persistence import Persistence
    jobs = []
    meta = []
    nstates = 1 if tier == "quick" else 4
    for ext in ("json", "pickle"):
        for si in range(nstates):
            g1, g2 = _make_state(rng, 1 + 2 * si), _make_state(rng, 2 + 2 * si)
            trees = {_tree({}): 0, _tree(g1.sensors): 1, _tree(g2.sensors): 2}
            blobs = []
            for g in (g1, g2):
                p = os.path.join(wd, f"src{si}." + ext)
                Persistence(g.sensors, lambda f: f, persistence_file=p).save_sensors()
                with open(p, "rb") as fh:
                    blobs.append(fh.read())
                os.remove(p)
            main_good, bak_good = blobs
            mains = [(None, -1), (main_good, 1), (b"", -2), (b"\0" * len(main_good), -2)]
            mains += [(main_good[:o], -2) for o in range(1, len(main_good))]
            baks_small = [(None, -1), (bak_good, 2), (b"", -2), (b"\0" * len(bak_good), -2),
                          (bak_good[:len(bak_good) // 2], -2), (bak_good[:-1], -2), (bak_good[:1], -2)]
            baks_all = baks_small + [(bak_good[:o], -2) for o in range(2, len(bak_good) - 1)]
            for mi, (mb, mc) in enumerate(mains):
                # every damage of the backup is combined with a missing and with an empty main file;
                # every damage of the main file with the seven backup classes
                baks = baks_all if mi in (0, 2) else baks_small
                for (bb, bc) in baks:
                    for entry in ((0, 1, 2) if (mi < 4 or mi % 5 == 0) else (0, 1)):
                        jobs.append((None, ext, mb, bb, mc, bc, entry, trees))
                        meta.append((ext, si, len(mb) if mb is not None else -1, len(bb) if bb is not None else -1, entry))
    n = common.ncpu()
    jobs = [(os.path.join(wd, f"w{i % (n * 4)}"),) + j[1:] for i, j in enumerate(jobs)]
    # one directory per worker slot: run slots sequentially inside a worker
    by_slot = {}
    for i, j in enumerate(jobs):
        by_slot.setdefault(j[0], []).append((i, j))

    with mp.get_context("fork").Pool(n) as pool:
        res = pool.map(_slot, list(by_slot.values()))
    R = [None] * len(jobs)
    for part in res:
        for i, r in part:
            R[i] = r
    path = os.path.join(wd, "loads.json")
    with open(path, "w", encoding="utf-8") as fh:
        json.dump({"R": R}, fh)
    r = tlc.run("PersistLoad", os.path.join(common.SPEC, "PersistLoad.cfg"), workdir=os.path.join(wd, "tlc"), workers=4,
                env={"TRACE_FILE": path}, timeout=900)
    if r.violation == "assumption":
        raise tlc.MachineryError("PersistLoad: LoadTotalAndWhole fails on the specification\n" + r.out[-2000:])
    tlc.must_ok(r, "PersistLoad")
    rep.add_tlc("PersistLoad", r)
    for i in _parse_bad(r.out, "BADR"):
        rec, m = R[i - 1], meta[i - 1]
        sig = {"kind": "load-mismatch", "ext": m[0], "main_class": rec[0], "bak_class": rec[1], "raised": rec[2],
               "loaded": rec[3], "entry": ["safe_load_sensors", "start_persistence", "async start_persistence"][m[4]]}
        rep.violation(sig, {"ext": m[0], "state": m[1], "main_truncated_to": m[2], "bak_truncated_to": m[3], "record": rec})
    shutil.rmtree(wd, ignore_errors=True)
    rep.cov["traces_validated_against_impl"] = len(R)
    rep.cov["evaluations"] = len(R)
    for i, rec in enumerate(R):
        rep.nontrivial((meta[i][0], meta[i][2], meta[i][3], rec[0], rec[1]))
    rep.cov["exhaustive"] = True
    rep.cov["rule"] = ("both formats x states x main in {absent, intact, empty, zero-filled, truncated at every offset 1..len-1} x backup in "
                       "{absent, intact, empty, zero-filled, 3 truncations} (and every truncation of the backup under a missing / empty "
                       "main) x {safe_load_sensors, start_persistence, asyncio start_persistence (subset)}. Every load is non-trivial; distinct by (format, main length, "
                       "backup length, classes).")
    rep.sample({"record": "[mainClass, bakClass, raised, loadedVersion, mainExistsAfter, bakExistsAfter]", "example": R[len(R) // 2]})
    rep.assumptions += ["real files in a scratch directory (no fault injection needed for C13)"]
    return rep.finish()


def _slot(items):
    return [(i, _work(j)) for i, j in items]


def replay(path):
    with open(path, encoding="utf-8") as fh:
        print(json.dumps(json.load(fh), indent=1)[:3000])
    return 0
