"""C09 - OTA serves exactly the firmware it advertised.

M: TLC checks the arithmetic of spec/Ota.tla for every length 1..400 (OtaMC).
B: images are written as Intel-HEX by the harness' own encoder, scheduled with update_fw,
   fetched through Gateway.logic by several nodes in random order with repetitions; the
   image bytes and every response are validated by TLC against Ota.tla (OtaTrace), TLC
   computing CRC-16/MODBUS bit by bit as the independent oracle.
"""
import binascii
import json
import os
import random
from concurrent.futures import ThreadPoolExecutor

from . import common, ihex, tlc
from .c03 import _parse_bad
from .gwdrv import RecTransport

PID = "C09"


def hexwords(*ws):
    return "".join("%02X%02X" % (w & 255, (w >> 8) & 255) for w in ws)


def words(hexstr, n):
    raw = binascii.unhexlify(hexstr)
    return [raw[i] | (raw[i + 1] << 8) for i in range(0, 2 * n, 2)], list(raw[2 * n:])


def lengths(tier):
    ls = set()
    if tier == "quick":
        ls.update(range(1, 40))
        ls.update(range(100, 140, 3))
        for m in range(128, 2049, 128):
            ls.update([m - 17, m - 16, m - 1, m, m + 1, m + 15, m + 16, m + 17])
        ls.update([32768, 32767, 32752, 16384 + 5])
    else:
        ls.update(range(1, 2201))
        for m in range(2304, 32769, 128):
            ls.update([m - 17, m - 16, m - 15, m - 1, m, m + 1, m + 15, m + 16, m + 17])
        ls.update([32768, 32767])
    return sorted(x for x in ls if 1 <= x <= 32768)


_SHARED = {}


def _crc16(data, crc=0xFFFF):
    for b in data:
        crc ^= b
        for _ in range(8):
            crc = (crc >> 1) ^ 0xA001 if crc & 1 else crc >> 1
    return crc


def _crc_twin(img, rng):
    """Another image of the same length whose 0xFF-padded CRC-16/MODBUS equals that of img (last two bytes solved for)."""
    n = len(img)
    pad = b"\xff" * (128 - n % 128)
    target = _crc16(bytes(img) + pad)
    body = bytearray(img)
    for k in rng.sample(range(n - 2), min(5, n - 2)):
        body[k] ^= 1 + rng.randrange(255)
    state = _crc16(body[:n - 2])
    tails = {}
    for b1 in range(256):
        s1 = _crc16(bytes([b1]), state)
        for b2 in range(256):
            if _crc16(bytes([b2]) + pad, s1) == target:
                body[n - 2], body[n - 1] = b1, b2
                return bytes(body) if bytes(body) != bytes(img) else None
    return None


def converse(rng, n, wd, idx, mode=None):
    import mysensors
    from mysensors.ota import load_fw
    # every third conversation re-uses the previous gateway AND firmware id: a new image under the same (type, version)
    if mode is None:
        mode = ("fresh", "same-id", "retarget")[idx % 3]
    reuse = _SHARED.get("gw") is not None and mode != "fresh"
    retarget = reuse and mode == "retarget"  # same gateway and nodes, ANOTHER firmware id: the earlier image stays loaded
    img = bytes(rng.randrange(256) for _ in range(n)) if rng.random() < 0.8 else bytes([rng.choice([0, 255])]) * n
    prev_img = _SHARED.get("last_img")
    if reuse and mode == "twin" and prev_img is not None and len(prev_img) == n and n >= 4 and n % 128 != 0:
        # the new image under the same id has the same length AND the same CRC-16 as the one it replaces (1 in 65536 by
        # chance; constructed here): still every block served must be the NEW image's
        twin = _crc_twin(prev_img, rng)
        if twin is not None:
            img = twin
    ft = rng.choice([0, 1, 10, 255, 256, 65535, rng.randrange(65536)])
    fv = rng.choice([0, 1, 2, 65535, rng.randrange(65536)])
    if reuse and not retarget:
        ft, fv = _SHARED["fw"]
    elif retarget and (ft, fv) == _SHARED["fw"]:
        fv = (fv + 1) % 65536
    # every fifth image is written over the SAME path as an earlier one and gets that file's old time stamp back (cp -p,
    # rsync -t, a rebuild inside one time-stamp tick): what loads is what the file holds now
    same_path = idx % 5 == 4
    path = os.path.join(wd, "img_same.hex" if same_path else f"img{idx}.hex")
    start = rng.choice([0, 0, 0x100, 0x1000]) if n < 20000 else 0
    ihex.write(path, img, reclen=rng.choice([16, 32, 8, 255]), start=start)
    if same_path:
        os.utime(path, (1700000000, 1700000000))
    # every other conversation runs with the library's loggers at DEBUG (into nowhere): logging must not change behaviour
    import logging
    logging.disable(logging.NOTSET if rng.random() < 0.5 else logging.CRITICAL)      # (drawn, not derived from idx)
    lg = logging.getLogger("mysensors")
    if not lg.handlers:
        lg.addHandler(logging.NullHandler())
    lg.setLevel(logging.DEBUG)
    lg.propagate = False
    rec = {"img": list(img), "ft": ft, "fv": fv, "cfgs": [], "blks": [], "len": n, "hasloaded": False, "loaded": [],
           "err": "", "hasprev": False, "pimg": [], "pblocks": 0, "pblks": []}
    prev = _SHARED.get("last") if retarget else None
    try:
        loaded = load_fw(path)
        if loaded is not None:
            rec["hasloaded"], rec["loaded"] = True, list(loaded)
        if reuse:
            gw, nodes = _SHARED["gw"], _SHARED["nodes"]
        else:
            ver = rng.choice(["1.4", "1.5", "2.0", "2.1", "2.2"])
            gw = mysensors.BaseSyncGateway(RecTransport(), protocol_version=ver)
            _SHARED["last"] = None
            nodes = rng.sample([1, 2, 7, 200, 254], rng.randint(1, 3))
            for nd in nodes:
                gw.logic(f"{nd};255;0;0;17;{ver}\n")
        old = _SHARED.get("last") if (reuse and not retarget) else None
        all_nodes = nodes
        if retarget and len(nodes) > 1 and rng.random() < 0.6:
            # only some of the nodes move to the new firmware id: the first one stays in the middle of the earlier download
            nodes = nodes[1:]
        _SHARED.update(gw=gw, nodes=all_nodes, fw=(ft, fv))
        if len(nodes) > 1 and rng.random() < 0.5:
            # the image is loaded once, for the first node; the others are scheduled by type and version alone
            gw.update_fw(nodes[0], ft, fv, path)
            gw.update_fw(nodes[1:], ft, fv)
        else:
            gw.update_fw(nodes if len(nodes) > 1 else nodes[0], ft, fv, path)
        if old is not None and old["blocks"] > 0:
            # the image under this id was just replaced while the nodes were in the middle of the previous one: what a
            # node is served before it has asked for the config again must still fit what it WAS told (or stay unanswered)
            rec.update(hasprev=True, pimg=old["img"], pblocks=old["blocks"])
            for bi in [0, old["blocks"] - 1, rng.randrange(old["blocks"])]:
                nd = rng.choice(nodes)
                r = gw.logic(f"{nd};255;4;0;2;{hexwords(old['ft'], old['fv'], bi)}\n")
                if r is None:
                    continue
                h = r.rstrip("\n").split(";")
                w, data = words(h[5], 3)
                rec["pblks"].append([old["ft"], old["fv"], bi, w[0], w[1], w[2], data])
        for nd in nodes:
            r = gw.logic(f"{nd};255;4;0;0;{hexwords(ft, rng.randrange(65536), 7, 8, 9)}\n")
            if r is None:
                rec["err"] = "no config response"
                continue
            h = r.rstrip("\n").split(";")
            if h[:5] != [str(nd), "255", "4", "0", "1"]:
                rec["err"] = "bad config response header " + r
                continue
            w, rest = words(h[5], 4)
            if rest:
                rec["err"] = "config response too long"
            rec["cfgs"].append(w)
        if rec["cfgs"]:
            blocks = rec["cfgs"][0][2]
            if blocks <= 70:
                order = list(range(blocks)) + [rng.randrange(blocks) for _ in range(10)]
            else:
                order = [0, 1, blocks - 1, blocks - 2, blocks // 2] + [rng.randrange(blocks) for _ in range(45)]
            rng.shuffle(order)
            if mode == "fresh" and idx % 6 == 0:
                order = []          # the nodes have been told the config but have not fetched a block yet when the next
                                    # conversation replaces the image
            for bi in order:
                nd = rng.choice(nodes)
                r = gw.logic(f"{nd};255;4;{rng.choice([0, 0, 1])};2;{hexwords(ft, fv, bi)}\n")
                if r is None:
                    rec["err"] = f"no block response for block {bi}"
                    continue
                h = r.rstrip("\n").split(";")
                if h[0] != str(nd) or h[1:3] != ["255", "4"] or h[4] != "3":
                    rec["err"] = "bad block response header " + r
                    continue
                w, data = words(h[5], 3)
                rec["blks"].append([ft, fv, bi, w[0], w[1], w[2], data])
            _SHARED["last"] = {"ft": ft, "fv": fv, "img": list(img), "blocks": blocks}
            _SHARED["last_img"] = bytes(img)
            if prev is not None and (prev["ft"], prev["fv"]) != (ft, fv):
                # late requests that still name the firmware the nodes were fetching before they were re-targeted: whatever is
                # answered must be labelled with, and carry the data of, the firmware the request names
                rec.update(hasprev=True, pimg=prev["img"], pblocks=prev["blocks"])
                for bi in [0, prev["blocks"] - 1] + [rng.randrange(prev["blocks"]) for _ in range(6)]:
                    nd = rng.choice(nodes)
                    r = gw.logic(f"{nd};255;4;0;2;{hexwords(prev['ft'], prev['fv'], bi)}\n")
                    if r is None:
                        continue
                    h = r.rstrip("\n").split(";")
                    w, data = words(h[5], 3)
                    rec["pblks"].append([prev["ft"], prev["fv"], bi, w[0], w[1], w[2], data])
    except Exception as exc:  # pylint: disable=broad-except
        rec["err"] = f"exception {type(exc).__name__}: {exc}"
    finally:
        if os.path.exists(path) and not same_path:
            os.remove(path)
    return rec


def run(tier):
    rep = common.Report(PID, tier)
    wd = common.workdir(PID)
    rng = random.Random(common.seed() + 9)
    res = tlc.run("OtaMC", os.path.join(common.SPEC, "OtaMC.cfg"), workdir=os.path.join(wd, "mc"), timeout=900)
    if res.violation:
        raise tlc.MachineryError("Ota.tla self-check failed: " + res.trace_text[:2000])
    tlc.must_ok(res, "OtaMC")
    rep.add_tlc("OtaMC", res)
    ls = lengths(tier)
    recs = [converse(rng, n, wd, i) for i, n in enumerate(ls)]
    for n in ((5, 120, 200, 1000) if tier == "quick" else (4, 5, 17, 120, 127, 129, 200, 1000, 2047, 5000)):
        recs.append(converse(rng, n, wd, len(recs), mode="fresh"))
        recs.append(converse(rng, n, wd, len(recs), mode="twin"))
    nsh = common.ncpu()
    # balance shards by image size
    order = sorted(range(len(recs)), key=lambda i: -recs[i]["len"])
    shards = [[] for _ in range(nsh)]
    for k, i in enumerate(order):
        shards[k % nsh].append(i)
    paths = []
    for s, idxs in enumerate(shards):
        p = os.path.join(wd, f"shard{s}.ndjson")
        with open(p, "w", encoding="utf-8") as fh:
            for i in idxs:
                fh.write(json.dumps({k: v for k, v in recs[i].items() if k != "err"}) + "\n")
        paths.append(p)

    def val(args):
        s, p = args
        if not shards[s]:
            return s, []
        r = tlc.run("OtaTrace", os.path.join(common.SPEC, "OtaTrace.cfg"), workdir=os.path.join(wd, f"t{s}"), workers=1,
                    env={"TRACE_FILE": p}, timeout=3000)
        tlc.must_ok(r, f"OtaTrace shard {s}")
        return s, _parse_bad(r.out, "BADREC")
    with ThreadPoolExecutor(nsh) as ex:
        for s, bad in ex.map(val, list(enumerate(paths))):
            for j in bad:
                rec = recs[shards[s][j - 1]]
                rep.violation({"kind": "ota-mismatch", "len_mod_128": rec["len"] % 128, "len_mod_16": rec["len"] % 16,
                               "err": rec["err"][:60]},
                              {"length": rec["len"], "ft": rec["ft"], "fv": rec["fv"], "cfgs": rec["cfgs"], "err": rec["err"],
                               "image_head": rec["img"][:32], "first_blocks": rec["blks"][:3]})
    for rec in recs:
        if rec["err"] and not rep.violations:
            rep.violation({"kind": "ota-conversation-error", "err": rec["err"][:80]}, {"length": rec["len"], "err": rec["err"]})
        rep.nontrivial((rec["len"], rec["ft"], rec["fv"]))
    rep.cov["traces_validated_against_impl"] = len(recs)
    rep.cov["evaluations"] = sum(len(r["blks"]) + len(r["cfgs"]) for r in recs)
    rep.cov["rule"] = ("one conversation per image length (quick: 1..39, around every 128-byte boundary to 2 KiB, 32 KiB; thorough: every "
                       "length 1..2200 and +-17 around every page boundary to 32768); random contents, type/version incl. 0 and 65535, "
                       "Intel-HEX record sizes 8/16/32/255 and start offsets; 1-3 nodes fetching all blocks (<= 70) or 50 sampled blocks "
                       "incl. first/last in shuffled order with repetitions. Non-trivial = every conversation; distinct by (length, type, version).")
    rep.sample({"length": recs[0]["len"], "cfgs": recs[0]["cfgs"], "first_block": recs[0]["blks"][:1]})
    rep.sample({"length": recs[-1]["len"], "cfgs": recs[-1]["cfgs"], "blocks_fetched": len(recs[-1]["blks"])})
    rep.assumptions += ["Intel-HEX files are produced by harness/ihex.py (contiguous images, optional offset); third-party dialects not covered",
                        "CRC-16/MODBUS is evaluated by TLC (Bitwise module), not proved"]
    return rep.finish()


def replay(path):
    with open(path, encoding="utf-8") as fh:
        print(json.dumps(json.load(fh), indent=1)[:3000])
    return 0
