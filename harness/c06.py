"""C06 - node ids are never handed out twice (also across clean stop/restart)."""
from . import gwcheck, gwfocus

PID = "C06"
PROJ = ["out", "tree", "trans", "jobs", "disk", "exc", "lenient-id"]
PROPS = ["IdsInRangeAndFresh", "NodesOnlyViaPresentationOrId"]
INVS = ["StopLosesNothing", "Disciplines"]


def _id_event(ev):
    return any(c[2] == 3 and c[4] == 4 for c in ev["out"]) or ev["a"] in ("StopRestart",)


def run(tier):
    focus = [("ids", gwfocus.ids, ["1.4", "2.2"], ["sync", "async"], True)]
    chk = gwcheck.GwCheck(PID, tier, PROJ, focus=focus, flavours=["sync", "async"], persist=True, exts=("json", "pickle"),
                          mc_props=PROPS, mc_invs=INVS, mc_depth_quick=6, mc_depth_thorough=8, sim_depth=16,
                          profile={"idreq": 30, "pres": 22, "child": 6, "set": 6, "batt": 4, "garbage": 2, "invalid": 3,
                                   "req": 2, "wake": 3, "fwcfg": 1, "fwreq": 1},
                          gen_opts=lambda i: {"prefix": None, "tick_p": 0.08, "restart_p": 0.10, "no_callback": i % 3 == 1, "mqtt": i % 4 == 2},
                          n_quick=90, nontrivial=_id_event)
    return chk.run()


def replay(path):
    return gwcheck.replay_file(path, PROJ)
