"""C07 - nothing is sent to a sleeping node outside its wake window."""
from . import gwcheck, gwfocus

PID = "C07"
PROJ = ["out", "jobs", "trans", "exc", "cb"]
PROPS = ["QuietWhileAsleep", "BurstShape", "NoEffectOnBad"]
INVS = ["Disciplines"]
VERS = ["2.0", "2.1", "2.2"]


def _sleeping_traffic(ev):
    sleepers = {t[0] for t in ev["st"]["trans"] if t[2]}
    return bool(sleepers) and (bool(ev["out"]) or any(t[3] for t in ev["st"]["trans"]))


def run(tier):
    focus = [("sleep", gwfocus.sleep, VERS, ["async", "sync"], False),
             ("ota", gwfocus.ota, ["2.0", "2.2"], ["async"], False)]
    chk = gwcheck.GwCheck(PID, tier, PROJ, focus=focus, versions=VERS, mc_props=PROPS, mc_invs=INVS,
                          mc_depth_quick=6, mc_depth_thorough=8,
                          profile={"wake": 22, "req": 16, "set": 20, "child": 14, "idreq": 6, "config": 5, "time": 5,
                                   "fwcfg": 4, "garbage": 2, "invalid": 3},
                          scripts=gwfocus.falsy_scripts(), nontrivial=_sleeping_traffic)
    return chk.run()


def replay(path):
    return gwcheck.replay_file(path, PROJ)
