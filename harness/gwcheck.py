"""Generic Gateway-level check: TLC focus runs + replay of TLC behaviours + random
histories, all validated against Gateway.tla through one property's projection."""
import json
import multiprocessing as mp
import os
import random

from . import common, gwfocus, gwgen, gwmc, gwtrace, ihex, tlc
from .gwdrv import Driver, replay_ops
from .payload import Interner

ALL_VERS = ["1.4", "1.5", "2.0", "2.1", "2.2"]
FLAVOURS = ["async", "sync"]


def _hexfile(wd):
    path = os.path.join(wd, "fw.hex")
    if not os.path.exists(path):
        ihex.write(path, bytes((i * 7 + 3) & 255 for i in range(200)))
        # image files that cannot be used: end-of-file record only, no bytes at all, not Intel-HEX (and fw.hex.missing does
        # not exist)
        for suffix, content in ((".eof", ":00000001FF\n"), (".zero", ""), (".garbage", "this is not a hex file\n:zz\n")):
            with open(path + suffix, "w", encoding="utf-8") as fh:
                fh.write(content)
    return path


def _rm(path):
    """Scratch file clean-up that cannot fail (a save task the library left running may still be renaming things)."""
    try:
        os.remove(path)
    except OSError:
        pass


# ------------------------------------------------------------------ workers (fork)
def _gen_worker(args):
    import logging
    logging.disable(logging.CRITICAL)
    (seed, ver, fl, steps, profile, calls, persist_dir, raising, hexfile, ext, opts) = args
    rng = random.Random(seed)
    pfile = None
    if persist_dir:
        os.makedirs(persist_dir, exist_ok=True)
        pfile = os.path.join(persist_dir, f"p{seed}.{ext}")
        if seed % 2:
            # the persistence file configured as a bare file name in the working directory (the library's default is one)
            os.chdir(persist_dir)
            pfile = f"p{seed}.{ext}"
        for suffix in ("", ".bak"):
            _rm(pfile + suffix)
    tr = gwgen.run_history(rng, ver, fl, steps, profile=profile, calls=calls, persist=pfile,
                           raising_cb=raising, hexfile=hexfile, **opts)
    tr["cfg"]["seed"] = seed
    tr["cfg"]["ext"] = ext
    if pfile:
        for suffix in ("", ".bak"):
            _rm(pfile + suffix)
    return tr


def _replay_worker(args):
    import logging
    logging.disable(logging.CRITICAL)
    (ver, fl, lines, calls, acts, hexfile, persist_path, raising) = args
    if persist_path:
        for suffix in ("", ".bak"):
            _rm(persist_path + suffix)
    drv = Driver(ver, fl, Interner(), persistence_file=persist_path, raising_cb=raising)
    for (a, i, k) in acts:
        # k > 0: during this step the application's event callback makes call k (a set_child_value for the reporting node and
        # child) - armed for this one step
        drv.react_once = drv.react_once_fw = None
        if k and calls[k - 1]["a"] == "SetChild":
            drv.react_once = [calls[k - 1]["t"], calls[k - 1]["value"], calls[k - 1].get("ack", 0)]
            drv.ops.append(["react_once", drv.react_once])
        elif k:
            drv.react_once_fw = list(calls[k - 1]["f"])       # update_fw(presenting node, type, version) without an image
            drv.ops.append(["react_once_fw", drv.react_once_fw])
        if a == "Recv":
            drv.recv(lines[i - 1])
        elif a in ("PumpL", "PumpE"):
            # the implementation may resolve a freedom point (e.g. which id it hands out) differently from the TLC
            # behaviour, after which the two queues differ in length: the behaviour only supplies the environment's
            # choices, the recorded trace is judged on its own
            if drv.gw.tasks.queue:
                drv.pump()
        elif a == "Call":
            c = calls[i - 1]
            if c["a"] == "SetChild":
                drv.set_child(c["n"], c["c"], c["t"], c["value"], ack=c.get("ack", 0))
            elif c["a"] == "UpdateFw":
                nids = c["nids"]
                drv.update_fw(nids, c["f"][0], c["f"][1], hexfile if c["img"] else None)
            elif c["a"] == "Metric":
                drv.set_metric(c["b"])
        elif a == "StartPersist":
            drv.start_persistence()
        elif a == "Tick":
            drv.tick()
        elif a == "StopRestart":
            drv.stop_restart()
        drv.react_once = drv.react_once_fw = None
    drv.close()
    if persist_path:
        for suffix in ("", ".bak"):
            _rm(persist_path + suffix)
    return drv.trace({"source": "tlc-simulate"})


def event_sig(ev):
    """Structural signature of the event a rejection points at."""
    sig = {"action": ev["a"]}
    if ev["a"] == "Recv" and ev["l"]["wf"]:
        sig["cmd"] = ev["l"]["h"]["cmd"]
        sig["sub"] = ev["l"]["h"]["sub"] if ev["l"]["h"]["cmd"] in (0, 3, 4) else -1
    if ev.get("raised"):
        sig["raised"] = ev.get("raisedtype", "")
    if ev.get("exc", "none") != "none":
        sig["exc"] = ev["exc"]
    return sig


class GwCheck:
    def __init__(self, pid, tier, proj, *, focus=(), versions=ALL_VERS, flavours=FLAVOURS, profile=None,
                 calls=True, persist=False, raising_share=0.3, steps=40, n_quick=50, n_thorough=1200,
                 sim_quick=60, sim_thorough=1500, nontrivial=None, sig_extra=None, exts=("json",),
                 mc_depth_quick=6, mc_depth_thorough=8, sim_depth=14, mc_props=None, mc_invs=None, gen_opts=None,
                 scripts=()):
        self.gen_opts = gen_opts or (lambda i: {"prefix": "mix"})
        self.scripts = scripts             # hand-written histories: (version, flavour, [driver ops]) - a list, or a function of the
                                           # firmware file path; validated like all others
        self.pid, self.tier, self.proj = pid, tier, proj
        self.focus, self.versions, self.flavours = focus, versions, flavours
        self.profile, self.calls, self.persist = profile, calls, persist
        self.raising_share, self.steps = raising_share, steps
        self.n = n_quick if tier == "quick" else n_thorough
        self.nsim = sim_quick if tier == "quick" else sim_thorough
        self.nontrivial = nontrivial or (lambda ev: bool(ev["out"]) or bool(ev["cb"]))
        self.sig_extra = sig_extra
        self.exts = exts
        self.mc_depth = mc_depth_quick if tier == "quick" else mc_depth_thorough
        self.sim_depth = sim_depth
        self.mc_props, self.mc_invs = mc_props, mc_invs
        self.rep = common.Report(pid, tier)
        self.wd = common.workdir(pid)

    # ---------------------------------------------------------------- M
    def model_check(self):
        for (name, fn, vers, fls, persist) in self.focus:
            for ver in vers:
                for fl in fls:
                    lines, calls = fn(ver)
                    tag = f"{name}_{ver.replace('.', '')}_{fl}"
                    r = gwmc.check(tag, os.path.join(self.wd, "mc"), ver, fl, lines, calls, depth=self.mc_depth,
                                   persist=persist, props=self.mc_props, invariants=self.mc_invs,
                                   timeout=1500 if self.tier == "thorough" else 600)
                    if r.violation:
                        raise tlc.MachineryError(f"model {tag}: the SPECIFICATION violates {r.violation} "
                                                 f"(spec self-check)\n{r.trace_text[:3000]}")
                    tlc.must_ok(r, f"GatewayMC {tag}")
                    self.rep.add_tlc(tag, r)

    # ---------------------------------------------------------------- B
    def collect_traces(self):
        hexfile = _hexfile(self.wd)
        seed0 = common.seed() * 1000003
        jobs = []
        k = 0
        pdir_all = os.path.join(self.wd, "pers")
        for ver in self.versions:
            for fl in self.flavours:
                for i in range(self.n):
                    k += 1
                    raising = (i % 10) < self.raising_share * 10
                    # checks that are not about persistence still run every fourth history with persistence enabled (both
                    # formats in turn): periodic saves, stop and restart in the middle of whatever the property is about
                    if self.persist:
                        pdir, ext = pdir_all, self.exts[i % len(self.exts)]
                    elif i % 4 == 3:
                        pdir, ext = pdir_all, ("json", "pickle")[(i // 4) % 2]
                    else:
                        pdir, ext = None, self.exts[i % len(self.exts)]
                    jobs.append((seed0 + k, ver, fl, self.steps, self.profile, self.calls, pdir, raising, hexfile, ext,
                                 self.gen_opts(i)))
        rjobs = []
        simstats = []
        for (name, fn, vers, fls, persist) in self.focus:
            for ver in vers:
                for fl in fls:
                    lines, calls = fn(ver)
                    tag = f"{name}_{ver.replace('.', '')}_{fl}"
                    beh, r = gwmc.simulate(tag, os.path.join(self.wd, "sim"), ver, fl, lines, calls, num=self.nsim,
                                           depth=self.sim_depth, seed=common.seed() + 17, persist=persist)
                    simstats.append((tag, len(beh)))
                    for bi, acts in enumerate(beh):
                        ppath = os.path.join(self.wd, "pers", f"sim_{tag}_{bi}.json") if persist else None
                        if ppath:
                            os.makedirs(os.path.dirname(ppath), exist_ok=True)
                        rjobs.append((ver, fl, lines, calls, acts, hexfile, ppath, bi % 4 == 0))
        with mp.get_context("fork").Pool(common.ncpu()) as pool:
            traces = pool.map(_gen_worker, jobs, chunksize=8)
            traces += pool.map(_replay_worker, rjobs, chunksize=8)
        scripts = self.scripts(hexfile) if callable(self.scripts) else list(self.scripts)
        for (ver, fl, ops) in scripts:
            for real_link in (False, True):
                tr = replay_ops({"ver": ver, "flavour": fl, "real_link": real_link}, ops)
                tr["cfg"]["seed_note"] = "script"
                traces.append(tr)
        self.rep.cov["scripted_histories"] = 2 * len(scripts)
        self.rep.cov["simulated_behaviours_replayed"] = len(rjobs)
        self.rep.cov["random_histories"] = len(jobs)
        return traces

    def validate(self, traces):
        rej, stats = gwtrace.validate(traces, self.proj, os.path.join(self.wd, "val"),
                                      timeout=3000 if self.tier == "thorough" else 900)
        self.rep.cov["states"] += stats["states"]
        self.rep.cov["transitions"] += stats["generated"]
        self.rep.cov["traces_validated_against_impl"] += len(traces)
        nev = 0
        for t in traces:
            for ev in t["ev"]:
                nev += 1
                if self.nontrivial(ev):
                    key = common.h([ev["a"], ev.get("l", {}).get("h"), ev["out"], ev["cb"], ev.get("exc"), ev.get("json"),
                                    ev["st"]["trans"] if "trans" in self.proj else 0,
                                    ev["disk"] if ev.get("hasdisk") and "disk" in self.proj else 0])
                    self.rep.nontrivial(key)
        self.rep.cov["evaluations"] += nev
        for r in rej:
            ev = r["trace"]["ev"][r["index"] - 1]
            sig = {"clauses": r["clauses"], **event_sig(ev)}
            if self.sig_extra:
                sig.update(self.sig_extra(r, ev))
            self.rep.violation(sig, {"cfg": r["trace"]["cfg"], "ops": r["trace"]["ops"], "rejected_at_event": r["index"],
                                     "failing_clauses": r["clauses"],
                                     "event": {k: v for k, v in ev.items() if k != "st"}, "observed_state": ev["st"]})
        if traces:
            t = traces[0]
            self.rep.sample({"cfg": t["cfg"], "first_events": [
                {k: v for k, v in e.items() if k in ("a", "out", "cb", "exc")} | ({"line": e["l"]["text"]} if "l" in e else {})
                for e in t["ev"][:6]]})
        return rej

    def run(self):
        self.model_check()
        traces = self.collect_traces()
        self.validate(traces)
        self.rep.cov["rule"] = (f"traces = replay of TLC -simulate behaviours of the focus models + protocol-aware random "
                                f"histories ({self.steps} steps) over versions {self.versions} x flavours {self.flavours}; "
                                f"every event is one Gateway.tla action validated by TLC through projection {self.proj}. "
                                "Non-trivial event = the property's focus predicate holds (see check module); distinct by "
                                "hash of (action, header, outputs, callbacks, transient state).")
        self.rep.assumptions += ["payload lexical classes from harness/payload.py; clock patched as seen from mysensors.handler",
                                 "version strings restricted to major.minor[.patch] or clearly non-numeric text"]
        return self.rep.finish()


def replay_file(path, proj):
    with open(path, encoding="utf-8") as fh:
        d = json.load(fh)
    rp = d["replay"]
    tr = replay_ops(rp["cfg"], rp["ops"])
    wd = common.workdir("replay_" + d["property"])
    rej, _ = gwtrace.validate([tr], proj, wd)
    if rej:
        r = rej[0]
        print(f"VIOLATION property={d['property']} replay={path}")
        print("  rejected at event", r["index"], "clauses", r["clauses"])
        return 1
    print("replay accepted by the specification (no violation on the current tree)")
    return 0
