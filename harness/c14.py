"""C14 - a clean stop loses nothing."""
from . import gwcheck, gwfocus

PID = "C14"
PROJ = ["tree", "disk", "dirty", "exc"]
PROPS = ["NodesOnlyViaPresentationOrId"]
INVS = ["StopLosesNothing", "Disciplines"]


def _persist_event(ev):
    return ev["a"] in ("Tick", "StopRestart", "StartPersist")


def run(tier):
    focus = [("ids", gwfocus.ids, ["2.0"], ["sync", "async"], True),
             ("tree", gwfocus.tree, ["1.4", "2.2"], ["sync", "async"], True)]
    chk = gwcheck.GwCheck(PID, tier, PROJ, focus=focus, flavours=["sync", "async"], persist=True, exts=("json", "pickle"),
                          mc_props=PROPS, mc_invs=INVS, mc_depth_quick=4, mc_depth_thorough=5, sim_depth=14,
                          gen_opts=lambda i: {"prefix": "mix", "tick_p": 0.10, "restart_p": 0.08, "no_callback": i % 3 == 1, "mqtt": i % 4 == 2},
                          n_quick=90, nontrivial=_persist_event)
    return chk.run()


def replay(path):
    return gwcheck.replay_file(path, PROJ)
