"""Deterministic line-level scheduler for real threads (sys.settrace + baton passing).

Each actor is a Python thread; only one runs at a time. Switch points are 'line' trace events
inside the files of interest. A schedule is a dict {global step number -> actor to run next};
everywhere else the current actor keeps running, and when it finishes the first runnable actor
(in declaration order) continues. All schedules with at most P preemptions are enumerated by
`schedules()`.
"""
import sys
import threading


class Sched:
    def __init__(self, files, switches=None, on_step=None):
        self.files = set(files)
        self.switches = dict(switches or {})
        self.cv = threading.Condition()
        self.cur = None
        self.order = []
        self.done = set()
        self.blocked = {}           # actor -> predicate that must become true before it may run
        self.step = 0
        self.steplog = []           # (actor, lineno) per step
        self.results = {}
        self.deadlock = False
        self.atomic = False         # while set, line events do not count as steps (harness-side atomic section)
        self.max_steps = 20000      # a run that needs more line steps than this is looping (livelock), not working
        self.livelock = False

    # -- called from traced threads
    def _tracer(self, name):
        def tr(frame, event, arg):
            if frame.f_code.co_filename not in self.files:
                return None
            if event == "line":
                self._yield(name, frame.f_lineno)
            return tr
        return tr

    def _runnable(self):
        return [a for a in self.order if a not in self.done and (a not in self.blocked or self.blocked[a]())]

    def _yield(self, name, lineno):
        if self.atomic:
            return
        if self.livelock:
            raise RuntimeError("step bound exceeded")
        with self.cv:
            self.step += 1
            if self.step > self.max_steps:
                self.livelock = self.deadlock = True
                self.cv.notify_all()
                raise RuntimeError("step bound exceeded")
            self.steplog.append((name, lineno))
            want = self.switches.get(self.step)
            if want is not None and want != name and want in self._runnable():
                self.cur = want
                self.cv.notify_all()
            while self.cur != name:
                self.cv.wait(1.0)
                if self.livelock:
                    raise RuntimeError("step bound exceeded")

    def wait_until(self, name, pred):
        """Block actor `name` (inside the harness, not inside library code) until pred() holds."""
        with self.cv:
            self.blocked[name] = pred
            if not pred():
                self._pick_other(name)
            while not (self.cur == name and pred()):
                if self.cur == name and not pred():
                    self._pick_other(name)
                self.cv.wait(0.5)
                if self.deadlock:
                    raise RuntimeError("scheduler deadlock")
            del self.blocked[name]

    def _pick_other(self, name):
        r = [a for a in self._runnable() if a != name]
        if r:
            self.cur = r[0]
            self.cv.notify_all()
        else:
            self.deadlock = True
            self.cv.notify_all()

    def _finish(self, name):
        with self.cv:
            self.done.add(name)
            r = self._runnable()
            self.cur = r[0] if r else None
            self.cv.notify_all()

    def run(self, actors, timeout=6):
        """actors: ordered list of (name, callable). Returns results dict name -> ("ok", value) | ("raise", text)."""
        self.order = [n for n, _ in actors]
        threads = []

        def wrap(name, fn):
            def body():
                with self.cv:
                    while self.cur != name:
                        self.cv.wait()
                sys.settrace(self._tracer(name))
                try:
                    self.results[name] = ("ok", fn())
                except BaseException as exc:  # pylint: disable=broad-except
                    self.results[name] = ("raise", type(exc).__name__ + ": " + str(exc))
                finally:
                    sys.settrace(None)
                    self._finish(name)
            return body
        for n, f in actors:
            t = threading.Thread(target=wrap(n, f), daemon=True)
            threads.append(t)
            t.start()
        with self.cv:
            self.cur = self.order[0]
            self.cv.notify_all()
        # wait for the actors; "hung" = no scheduler step and no actor finishing for `timeout` seconds of real time
        # (progress-based, so a loaded machine does not turn a slow run into a hang)
        import time as _t
        last, since = (-1, -1), _t.time()
        while any(t.is_alive() for t in threads):
            cur = (self.step, len(self.done))
            if cur != last:
                last, since = cur, _t.time()
            elif _t.time() - since > timeout:
                break
            _t.sleep(0.002)
        hung = [t for t in threads if t.is_alive()]
        if hung:
            self.deadlock = True
            with self.cv:
                self.cv.notify_all()
        return self.results


def schedules(nsteps, actors, bound):
    """All switch dictionaries with at most `bound` preemptions over steps 1..nsteps (coarse upper bound on steps)."""
    out = [{}]
    if bound >= 1:
        for s in range(1, nsteps + 1):
            for a in actors:
                out.append({s: a})
    if bound >= 2:
        for s1 in range(1, nsteps + 1):
            for s2 in range(s1 + 1, nsteps + 1):
                for a1 in actors:
                    for a2 in actors:
                        if a1 != a2 or len(actors) > 2:
                            out.append({s1: a1, s2: a2})
    return out
