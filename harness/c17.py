"""C17 - MQTT topics and commands map one-to-one.

M: TLC checks RoundTrip / ForeignRejected / WrongLengthRejected on spec/Mqtt.tla over prefixes of
   1..3 levels (empty, digit-only, nested) x headers x foreign prefixes (1.28 M states).
B: every (prefix pair, message, qos) is run through the real MQTTTransport.send -> pub_callback ->
   recv -> string handed to Gateway.logic, plus foreign topics; subscription sets are recorded over
   histories of presentations and restored persistence files (recording and raising callbacks).
   All records are validated by TLC against Mqtt.tla (MqttTrace.tla).
"""
import itertools
import json
import os
import random
from concurrent.futures import ThreadPoolExecutor

from . import common, tlc
from .c03 import _parse_bad
from .gwdrv import FakeTimer

PID = "C17"
PL = ["", "1", "255", "a", "a-b", "mys-in", "0", "x9"]
PAYLOADS = ["", "x", "43", "a b", "\xfcn\xef \U0001f600", "1.5", "M", "0/1", "+", "#"]


def prefixes(tier):
    ps = [[a] for a in PL]
    two = [[a, b] for a in PL if a for b in PL if b]
    three = [["a", b, c] for b in ("1", "a-b", "255") for c in ("1", "255", "x9")] + [["1", "1", "1"], ["255", "0", "3"]]
    return ps + (two if tier == "thorough" else two[::3]) + three


def build_gateway(in_levels, out_levels, raising=False, persistence_file=None, flavour="sync", retained=(), retained_at=0):
    from mysensors import gateway_mqtt
    pubs, subs, handed = [], [], []
    # what broker clients raise: with a message, without any argument, with several, not a RuntimeError at all
    excs = [lambda: RuntimeError("callback raises"), TimeoutError, lambda: ConnectionError(104, "reset"), lambda: KeyError("mid"),
            lambda: ValueError()]
    build_gateway.count = getattr(build_gateway, "count", 0) + 1
    ctl = {"n": 0, "failing": raising == "start", "kind": build_gateway.count}

    def boom():
        # one kind of exception per gateway (a broker client fails the same way every time), the kinds in turn over gateways
        ctl["n"] += 1
        raise excs[ctl["kind"] % len(excs)]()

    def pub(topic, payload, qos, retain):
        pubs.append((topic, payload, qos, retain))
        if raising is True:
            boom()

    def sub(topic, callback, qos):
        if ctl["failing"]:
            boom()                      # the broker client is not connected yet: this subscription does not exist
        subs.append((topic, qos))
        ctl["nsub"] = ctl.get("nsub", 0) + 1
        if retained and ctl["nsub"] > retained_at and not ctl.get("replayed"):
            # the broker replays retained messages once the presentation topic is subscribed; a client that services the
            # network inside subscribe() hands them over from inside one of the following callbacks
            ctl["replayed"] = True
            for rtopic, rpayload in retained:
                callback("/".join(in_levels) + rtopic, rpayload, 0)
        if raising is True:
            boom()
    build_gateway.ctl = ctl
    kw = {"protocol_version": "2.2"}
    if persistence_file:
        kw.update(persistence=True, persistence_file=persistence_file)
    cls = gateway_mqtt.MQTTGateway if flavour == "sync" else gateway_mqtt.AsyncMQTTGateway
    gw = cls(pub, sub, in_prefix="/".join(in_levels), out_prefix="/".join(out_levels), retain=True, **kw)
    # a second gateway object of the same class and version in the same process, created afterwards and never started:
    # nothing of the gateway under observation may end up at its callbacks (gateways do not share mutable state)
    gw._verif_decoy = cls(lambda *a: None, lambda *a: None, in_prefix="decoy-in", out_prefix="decoy-out", retain=False,
                          protocol_version=kw["protocol_version"])
    return gw, pubs, subs, handed


def run(tier):
    rep = common.Report(PID, tier)
    wd = common.workdir(PID)
    rng = random.Random(common.seed() + 17)
    ex = ThreadPoolExecutor(2)
    fut = ex.submit(tlc.run, "MqttMC", os.path.join(common.SPEC, "MqttMC.cfg"), workdir=os.path.join(wd, "mc"), timeout=900)
    import mysensors.task
    mysensors.task.threading.Timer = FakeTimer
    P, R, S = [], [], []
    pref = prefixes(tier)
    hvals = ["0", "1", "2", "255", "17", "254"]
    # ---- publish + receive back (round trip) and foreign topics
    for pi, inp in enumerate(pref):
        gw, pubs, subs, _ = build_gateway(inp, inp, raising=(pi % 4 == 3))
        handed = []
        gw.tasks.add_job = lambda func, *args, handed=handed: handed.append(args[0])
        tr = gw.tasks.transport
        n_msgs = 40 if tier == "quick" else 200
        for _ in range(n_msgs):
            h = [rng.choice(hvals) for _ in range(5)]
            h[3] = rng.choice(["0", "1"])
            payload = rng.choice(PAYLOADS)
            del pubs[:]
            raised = 0
            try:
                tr.send(";".join(h) + ";" + payload + "\n")
            except Exception:  # pylint: disable=broad-except
                raised = 1
            if len(pubs) != 1:
                P.append([inp, inp, h, payload, [], "", -1, 0])
                continue
            topic, ppayload, qos, retain = pubs[0]
            P.append([inp, inp, h, payload, topic.split("/"), ppayload, int(qos), 1 if (retain is True and not raised) else 0])
            # feed back with several QoS values
            for q in (qos, rng.choice([0, 1, 2])):
                del handed[:]
                raised = 0
                try:
                    tr.recv(topic, ppayload, q)
                except Exception:  # pylint: disable=broad-except
                    raised = 1
                if handed:
                    parts = handed[0].split(";", 5)
                    R.append([inp, topic.split("/"), ppayload, q, 1, parts[:5], parts[5] if len(parts) > 5 else "", raised])
                else:
                    R.append([inp, topic.split("/"), ppayload, q, 0, [], "", raised])
        # foreign topics
        foreign = []
        for other in rng.sample(pref, 10 if tier == "quick" else 30):
            h = [rng.choice(hvals) for _ in range(5)]
            foreign.append(other + h)
            foreign.append(other + h[:4])
            foreign.append(other + h + ["1"])
            foreign.append(h)
            foreign.append(inp[:-1] + h if len(inp) > 1 else [""] + inp + h)
            foreign.append(other + inp + h)
        foreign += [[""], ["a"], inp, inp + ["1"], ["", ""], inp + ["1", "2", "3", "4"]]
        for levels in foreign:
            del handed[:]
            raised = 0
            q = rng.choice([0, 1])
            try:
                tr.recv("/".join(levels), "x", q)
            except Exception:  # pylint: disable=broad-except
                raised = 1
            if handed:
                parts = handed[0].split(";", 5)
                R.append([inp, levels, "x", q, 1, parts[:5], parts[5] if len(parts) > 5 else "", raised])
            else:
                R.append([inp, levels, "x", q, 0, [], "", raised])
    # ---- asymmetric prefixes: out prefix differs from in prefix
    for ai, (inp, outp) in enumerate(itertools.islice(itertools.product(pref[::4], pref[::5]), 60)):
        gw, pubs, subs, _ = build_gateway(inp, outp, flavour="sync" if ai % 2 else "async")
        h = [rng.choice(hvals) for _ in range(5)]
        h[3] = rng.choice(["0", "1"])
        gw.tasks.transport.send(";".join(h) + ";v\n")
        if len(pubs) == 1:
            P.append([inp, outp, h, "v", pubs[0][0].split("/"), pubs[0][1], int(pubs[0][2]), 1 if pubs[0][3] is True else 0])
        else:
            P.append([inp, outp, h, "v", [], "", -1, 0])
    # ---- subscriptions over histories (presentations, restored state, raising callbacks)
    n_hist = 60 if tier == "quick" else 600
    for i in range(n_hist):
        inp = rng.choice(pref)
        # (drawn independently: the combinations matter - e.g. a restored file with callbacks that work)
        raising = rng.choice([False, False, False, True, "start"])
        flavour = rng.choice(["sync", "sync", "async"])
        pfile = os.path.join(wd, f"mq{i}.json") if rng.random() < 0.5 else None
        retained = [(f"/{rng.choice([3, 9, 200])}/255/0/0/17", "2.2")] if rng.random() < 0.4 else []
        if pfile:
            # a previous life leaves a persistence file with presented children
            g0, _, _, _ = build_gateway(inp, inp, persistence_file=pfile)
            for ln in _pres_lines(rng):
                g0.logic(ln)
            g0.tasks.persistence.save_sensors()
        gw, pubs, subs, _ = build_gateway(inp, inp, raising=raising, persistence_file=pfile, flavour=flavour, retained=retained,
                                           retained_at=rng.randint(0, 6))
        ctl = build_gateway.ctl
        pump_dead = 0
        if not pfile and i % 5 in (1, 3):
            # the application registers nodes it knows about before the gateway is started
            for nd in rng.sample([1, 2, 7, 200, 254], rng.randint(1, 3)):
                gw.add_sensor(nd)
        before = set()

        def cover():
            kids = sorted([str(n), str(c)] for n, s_ in gw.sensors.items() for c in s_.children if (n, c) not in before)
            return [inp, sorted({k[0] for k in kids}), kids, [t.split("/") for t, _ in subs]]
        try:
            if flavour == "sync":
                if pfile:
                    gw.start_persistence()
                gw.tasks.transport.connect()           # what start() does before starting the poll thread
            else:
                import asyncio
                loop = asyncio.new_event_loop()
                if pfile:
                    loop.run_until_complete(gw.tasks.persistence and _async_load(gw))
                loop.run_until_complete(gw.tasks.transport.connect())
                loop.close()
            if ctl["failing"]:
                # every subscription asked for at start failed (the broker client was not connected yet); nothing came in
                # meanwhile.  Once the client is connected the application starts the transport again.
                ctl["failing"] = False
                if flavour == "sync":
                    gw.tasks.transport.connect()
                else:
                    loop = asyncio.new_event_loop()
                    loop.run_until_complete(gw.tasks.transport.connect())
                    loop.close()
            for ln in _pres_lines(rng):
                gw.tasks.add_job(gw.logic, ln)
                if flavour == "sync":
                    if not _drain_real(gw):
                        raise RuntimeError("the pump does not get past a message")
                # the cover must hold after EVERY step, not only at the end of the history
                S.append(cover())
        except Exception:  # pylint: disable=broad-except
            pump_dead = 1
        _, nodes, kids, sublevels = cover()
        if pump_dead:
            sublevels = []
        S.append([inp, nodes, kids, sublevels])
        if pfile and flavour == "sync" and not pump_dead and raising != "start":
            # the MQTT client lost its session (clean-session reconnect): the application starts the gateway again
            del subs[:]
            try:
                gw.tasks.transport.connect()
            except Exception:  # pylint: disable=broad-except
                pass
            S.append([inp, nodes, kids, [t.split("/") for t, _ in subs]])
        if pfile and os.path.exists(pfile):
            os.remove(pfile)
    path = os.path.join(wd, "mqtt.json")
    with open(path, "w", encoding="utf-8") as fh:
        json.dump({"P": P, "R": R, "S": S}, fh, ensure_ascii=True)
    r = tlc.run("MqttTrace", os.path.join(common.SPEC, "MqttTrace.cfg"), workdir=os.path.join(wd, "t"), workers=2,
                env={"TRACE_FILE": path}, timeout=1200)
    tlc.must_ok(r, "MqttTrace")
    for i in _parse_bad(r.out, "BADP"):
        rec = P[i - 1]
        rep.violation({"kind": "publish-mismatch", "out_prefix": "/".join(rec[1]), "ack": rec[2][3]}, {"record": rec})
    for i in _parse_bad(r.out, "BADR"):
        rec = R[i - 1]
        rep.violation({"kind": "receive-mismatch", "in_prefix": "/".join(rec[0]), "nlevels": len(rec[1]) - len(rec[0]),
                       "accepted": rec[4], "raised": rec[7]}, {"record": rec, "topic": "/".join(rec[1])})
    for i in _parse_bad(r.out, "BADS"):
        rec = S[i - 1]
        rep.violation({"kind": "subscriptions-do-not-cover", "in_prefix": "/".join(rec[0])}, {"record": rec})
    mc = fut.result()
    if mc.violation:
        raise tlc.MachineryError("Mqtt.tla self-check failed: " + mc.trace_text[:2000])
    tlc.must_ok(mc, "MqttMC")
    rep.add_tlc("MqttMC", mc)
    rep.cov["traces_validated_against_impl"] = len(P) + len(R) + len(S)
    rep.cov["evaluations"] = len(P) + len(R) + len(S)
    for rec in P:
        rep.nontrivial(("P", tuple(rec[0]), tuple(rec[1]), tuple(rec[2]), rec[3]))
    for rec in R:
        if rec[4]:
            rep.nontrivial(("R", tuple(rec[0]), tuple(rec[1]), rec[3]))
    for rec in S:
        if rec[2]:
            rep.nontrivial(("S", tuple(rec[0]), tuple(map(tuple, rec[2]))))
    rep.cov["rule"] = ("prefixes of 1..3 levels over {'', digits, letters, '-'} (in = out and asymmetric) x random headers x payloads x "
                       "QoS 0..2: send -> pub_callback args -> recv -> string handed to logic; foreign topics (other prefixes, 4 / 6 levels, "
                       "prefix inside the levels, short topics); subscription histories with restored persistence files, both flavours, "
                       "raising callbacks. Non-trivial = publish records, accepted receives, histories with children.")
    rep.sample({"publish_record": P[0]})
    rep.sample({"receive_record": next((x for x in R if x[4]), R[0])})
    rep.sample({"subscription_record": next((x for x in S if x[2]), S[0])})
    rep.assumptions += ["topic = levels joined by '/'; the empty prefix is the single empty level"]
    return rep.finish()


def _drain_real(gw, limit=400):
    """Run the library's own _poll_queue until the job queue is empty (bounded: a pump that keeps taking jobs without the
    queue ever emptying is reported by the caller)."""
    import mysensors.task as TASK
    tasks = gw.tasks
    real, n = tasks.run_job, [0]

    class NoSleep:
        time = staticmethod(__import__("time").time)
        sleep = staticmethod(lambda d: None)
    keep = TASK.time
    TASK.time = NoSleep

    def run_job(job=None):
        n[0] += 1
        if n[0] > limit or not tasks.queue:
            tasks._stop_event.set()
            return None
        return real(job)
    tasks.run_job = run_job
    try:
        tasks._stop_event.clear()
        tasks._poll_queue()
    finally:
        del tasks.run_job
        tasks._stop_event.clear()
        TASK.time = keep
    return n[0] <= limit


async def _async_load(gw):
    import asyncio
    await gw.start_persistence()
    await asyncio.sleep(0.05)      # let the save task take its first step (a task cancelled before it starts re-raises)
    if gw.tasks._cancel_save is not None:
        await gw.tasks._cancel_save()


def _pres_lines(rng):
    lines = []
    for n in rng.sample([1, 2, 7, 200, 254], rng.randint(0, 3)):
        lines.append(f"{n};255;0;0;17;2.2\n")
        for c in rng.sample([0, 1, 5, 254], rng.randint(0, 3)):
            lines.append(f"{n};{c};0;0;{rng.randint(0, 39)};d\n")
    rng.shuffle(lines)
    return lines


def replay(path):
    with open(path, encoding="utf-8") as fh:
        print(json.dumps(json.load(fh), indent=1)[:3000])
    return 0
