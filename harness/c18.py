"""C18 - documented configuration is accepted and honoured; version strings select the floor.

M: TLC enumerates every (gateway class, subset of documented keyword options) on the constructor
   chain model of spec/Config.tla (AllDocumentedSubsetsAccepted) and checks the version floor laws.
B: every enumerated configuration is instantiated for real (nothing connects) and each option's
   effect attribute is read back; every version string major.minor[.patch] (0..3 x 0..12 x
   absent/0..3) plus invalid ones is given to a gateway and presented by a node, and the selected
   behaviour is observed through version-specific probe frames.  Records validated by TLC.
"""
import itertools
import json
import os
import random

from . import common, tlc
from .c03 import _parse_bad
from .gwdrv import RecTransport

PID = "C18"
CLASSES = ["SerialGateway", "AsyncSerialGateway", "TCPGateway", "AsyncTCPGateway", "MQTTGateway", "AsyncMQTTGateway"]
COMMON = ["event_callback", "persistence", "persistence_file", "protocol_version"]
OWN = {"serial": ["baud", "timeout", "reconnect_timeout"], "tcp": ["port", "timeout", "reconnect_timeout"],
       "mqtt": ["in_prefix", "out_prefix", "retain"]}
VALUES = {"baud": [57600, 9600], "timeout": [2.5, 0.5], "reconnect_timeout": [7.0, 30.0], "port": [5004, 1883],
          "persistence": [True, False], "persistence_file": ["cfgdir/net.json", "other.pickle"],
          "protocol_version": ["2.2", "1.5", "2.0.0"], "in_prefix": ["gw-in", "a/b"], "out_prefix": ["gw-out", ""],
          "retain": [False, True]}


def kind(cls):
    return "serial" if "Serial" in cls else "tcp" if "TCP" in cls else "mqtt"


def gateway_class(probe_gw_accepts):
    """Observed behaviour class of a gateway from version-specific frames (never from the const cache)."""
    if probe_gw_accepts("0;255;3;0;32;1\n"):
        return "2.2"
    if probe_gw_accepts("0;255;3;0;22;1\n"):
        return "2.0"
    if probe_gw_accepts("0;255;3;0;15;x\n"):
        return "1.5"
    return "1.4"


def _spy(gw):
    flag = []
    gw.handlers = {k: (lambda msg, flag=flag: flag.append(1)) for k in gw.handlers}

    def accepts(line):
        del flag[:]
        gw.logic(line)
        return bool(flag)
    return accepts


def observe_config(cls, given):
    """Construct for real; return (constructed, [[option, observed effect], ...])."""
    from mysensors import mysensors as m
    klass = getattr(m, cls)
    calls = []
    kw = dict(given)
    if "event_callback" in kw:
        kw["event_callback"] = calls.append
    try:
        if kind(cls) == "serial":
            gw = klass("/dev/null-verif", **kw)
        elif kind(cls) == "tcp":
            gw = klass("127.0.0.1", **kw)
        else:
            gw = klass(lambda *a: None, lambda *a: None, **kw)
    except Exception as exc:  # pylint: disable=broad-except
        return 0, [], type(exc).__name__
    tr = gw.tasks.transport
    obs = []
    for o in COMMON + OWN[kind(cls)]:
        if o == "timeout":
            v = str(float(tr.timeout))
        elif o == "reconnect_timeout":
            v = str(float(tr.reconnect_timeout))
        elif o == "baud":
            v = str(gw.baud)
        elif o == "port":
            v = str(gw.server_address[1])
        elif o == "persistence":
            v = str(gw.tasks.persistence is not None)
            if gw.tasks.persistence is not None:
                # the option must WORK: a change made after the first save reaches the file with the next save
                try:
                    from mysensors.persistence import Persistence
                    pers = gw.tasks.persistence
                    gw.logic("1;255;0;0;17;1.4\n")
                    pers.save_sensors()
                    gw.logic("1;255;3;0;0;55\n")
                    pers.save_sensors()
                    back = {}
                    Persistence(back, lambda f: f, persistence_file=pers.persistence_file).safe_load_sensors()
                    if not (1 in back and back[1].battery_level == 55):
                        v = "broken: update after the first save was not persisted"
                except Exception as exc:  # pylint: disable=broad-except
                    v = "broken: " + type(exc).__name__
        elif o == "persistence_file":
            v = gw.tasks.persistence.persistence_file if gw.tasks.persistence is not None else "n/a"
        elif o == "in_prefix":
            v = tr.in_prefix
        elif o == "out_prefix":
            v = tr.out_prefix
        elif o == "retain":
            # observed through a publish
            seen = []
            tr._pub_callback = lambda t, p, q, r: seen.append(r)
            tr.send("1;255;3;0;6;M\n")
            v = str(seen[0]) if seen else "?"
        elif o == "event_callback":
            gw.tasks.transport = RecTransport() if kind(cls) != "mqtt" else gw.tasks.transport
            gw.logic("1;255;0;0;17;1.4\n")
            v = "called" if calls else "none"
        elif o == "protocol_version":
            g2 = type(gw).__mro__[-2]      # Gateway base class: fresh object with the same version string, spy handlers
            probe = g2(protocol_version=gw.protocol_version)
            v = gateway_class(_spy(probe))
            # the string the constructor kept must also be what was given (or the default)
        obs.append([o, v])
    return 1, obs, ""


def expected_text(o, value):
    if o in ("timeout", "reconnect_timeout"):
        return str(float(value))
    if o == "event_callback":
        return "called"
    if o == "protocol_version":
        return {"2.2": "2.2", "1.5": "1.5", "2.0.0": "2.0", "1.4": "1.4"}[value]
    return str(value)


def version_records(tier, rng):
    import mysensors
    V = []
    strings = []
    for maj in range(0, 4):
        for mnr in range(0, 13):
            for patch in (None, 0, 1, 2, 3):
                strings.append((f"{maj}.{mnr}" if patch is None else f"{maj}.{mnr}.{patch}", 1, maj, mnr))
    for bad in ["abc", "", "two.zero", None, "..", "nope", "x.y"]:
        strings.append((bad, 0, 0, 0))
    for num in (2.0, 2.2, 1.5, 1.4, 2.1, 1.3):
        strings.append((num, 1, int(str(num).split(".")[0]), int(str(num).split(".")[1])))
    for num in (1, 2, 3):                     # whole numbers: major alone, minor 0
        strings.append((num, 1, num, 0))
    if tier == "quick":
        strings = [s for i, s in enumerate(strings) if i % 2 == 0 or s[1] == 0 or s[3] in (0, 4, 5)]
    for text, valid, maj, mnr in strings:
        # as gateway option
        try:
            gw = mysensors.BaseSyncGateway(RecTransport(), protocol_version=text)
            probe = mysensors.Gateway(protocol_version=text)
            cls_obs = gateway_class(_spy(probe))
            # the >= 2.0 behaviour (presentation request for unknown nodes) must follow the same class
            gw.logic("9;0;1;0;0;1\n")
            while gw.tasks.queue:
                gw.tasks.transport.send(gw.tasks.run_job())
            presreq = any(x.startswith("9;255;3;0;19;") for x in gw.tasks.transport.log)
            if presreq != (cls_obs in ("2.0", "2.2")):
                cls_obs = "inconsistent:" + cls_obs
        except Exception as exc:  # pylint: disable=broad-except
            cls_obs = "raised:" + type(exc).__name__
        V.append(["gw", valid, maj, mnr, cls_obs, repr(text)])
        # which message is a smart-sleep wake-up also follows the version class: a heartbeat response is one in 2.0 / 2.1 only
        try:
            gh = mysensors.BaseSyncGateway(RecTransport(), protocol_version=text)
            for ln in ("1;255;0;0;17;2.2\n", "1;0;0;0;3;lamp\n", "1;0;1;0;2;1\n", "1;255;3;0;22;500\n"):
                gh.logic(ln)
            while gh.tasks.queue:
                gh.tasks.transport.send(gh.tasks.run_job())
            del gh.tasks.transport.log[:]
            try:
                gh.set_child_value(1, 0, 2, "0")
            except Exception:  # pylint: disable=broad-except
                pass
            while gh.tasks.queue:
                gh.tasks.transport.send(gh.tasks.run_job())
            hb_obs = "direct" if any(x.startswith("1;0;1;0;2;0") for x in gh.tasks.transport.log) else "held"
        except Exception as exc:  # pylint: disable=broad-except
            hb_obs = "raised:" + type(exc).__name__
        V.append(["gwhb", valid, maj, mnr, hb_obs, repr(text)])
        # as the version a node presents (gateway 2.2)
        if isinstance(text, str) and ";" not in text:
            g = mysensors.BaseSyncGateway(RecTransport(), protocol_version="2.2")
            try:
                g.logic(f"1;255;0;0;17;{text}\n")
            except Exception as exc:  # pylint: disable=broad-except
                V.append(["node", valid, maj, mnr, "raised:" + type(exc).__name__, repr(text)])
                continue
            if 1 not in g.sensors:
                node_obs = "rejected"
            else:
                g.logic("1;0;0;0;23;custom\n")
                g.logic("1;0;1;0;24;x\n")
                g.logic("1;255;3;0;32;500\n")

                def ok(t, v):
                    try:
                        g.set_child_value(1, 0, t, v)
                        return True
                    except Exception:  # pylint: disable=broad-except
                        return False
                node_obs = "2.0" if ok(47, "text") else "1.5" if ok(40, "ff0000") else "1.4" if ok(24, "y") else "none"
            V.append(["node", valid, maj, mnr, node_obs, repr(text)])
        # a node already known with a newer version gets this version assigned: the rule applies to the new value alone
        g = mysensors.BaseSyncGateway(RecTransport(), protocol_version="2.2")
        try:
            g.logic("1;255;0;0;17;2.1\n")
            g.logic("1;0;0;0;23;custom\n")
            g.logic("1;0;1;0;24;x\n")
            g.sensors[1].protocol_version = text
            g.logic("1;255;3;0;32;500\n")

            def ok2(t, v):
                try:
                    g.set_child_value(1, 0, t, v)
                    return True
                except Exception:  # pylint: disable=broad-except
                    return False
            attr_obs = "2.0" if ok2(47, "text") else "1.5" if ok2(40, "ff0000") else "1.4" if ok2(24, "y") else "none"
        except Exception as exc:  # pylint: disable=broad-except
            attr_obs = "raised:" + type(exc).__name__
        V.append(["nodeattr", valid, maj, mnr, attr_obs, repr(text)])
    return V


def run(tier):
    rep = common.Report(PID, tier)
    wd = common.workdir(PID)
    rng = random.Random(common.seed() + 18)
    os.makedirs(os.path.join(wd, "cwd", "cfgdir"), exist_ok=True)
    os.chdir(os.path.join(wd, "cwd"))          # relative persistence files (incl. the default) land in scratch
    C = []
    errs = []
    for cls in CLASSES:
        opts = COMMON + OWN[kind(cls)]
        for r in range(0, len(opts) + 1):
            for subset in itertools.combinations(opts, r):
                nvar = 1 if tier == "quick" else 2
                for variant in range(nvar):
                    given = {o: (print if o == "event_callback" else VALUES[o][(variant + (hash(o) & 1)) % 2]) for o in subset}
                    ok, obs, err = observe_config(cls, given)
                    names = list(subset)
                    vals = [expected_text(o, given[o]) for o in names]
                    C.append([cls, names, vals, ok, obs])
                    if err:
                        errs.append(err)
        # boundary values of the numeric options: 0 is a meaningful setting (a non-blocking read, an immediate retry), not "unset"
        for given in ({"timeout": 0}, {"reconnect_timeout": 0}, {"timeout": 0, "reconnect_timeout": 0.0}, {"timeout": 0.0, "baud": 9600},
                      {"reconnect_timeout": 0, "port": 1}):
            if all(o in opts for o in given):
                ok, obs, err = observe_config(cls, given)
                names = list(given)
                C.append([cls, names, [expected_text(o, given[o]) for o in names], ok, obs])
                if err:
                    errs.append(err)
    V = version_records(tier, rng)
    path = os.path.join(wd, "config.json")
    with open(path, "w", encoding="utf-8") as fh:
        json.dump({"C": C, "V": [v[:5] for v in V]}, fh)
    r = tlc.run("ConfigTrace", os.path.join(common.SPEC, "ConfigTrace.cfg"), workdir=os.path.join(wd, "t"), workers=4,
                env={"TRACE_FILE": path}, timeout=900)
    if r.violation:
        raise tlc.MachineryError("Config.tla self-check failed: " + (r.trace_text or r.out)[-2000:])
    tlc.must_ok(r, "ConfigTrace")
    rep.add_tlc("ConfigTrace", r)
    for i in _parse_bad(r.out, "BADC"):
        rec = C[i - 1]
        wrong = [o for o in rec[4]]
        rep.violation({"kind": "config-mismatch", "class": rec[0], "constructed": rec[3], "options": sorted(rec[1])[:4]},
                      {"class": rec[0], "options": rec[1], "values": rec[2], "constructed": rec[3], "observed": rec[4]})
    for i in _parse_bad(r.out, "BADV"):
        rec = V[i - 1]
        rep.violation({"kind": "version-floor-mismatch", "as": rec[0], "observed": rec[4], "major": rec[2], "minor": rec[3],
                       "valid": rec[1]}, {"version_text": rec[5], "record": rec[:5]})
    rep.cov["traces_validated_against_impl"] = len(C) + len(V)
    rep.cov["evaluations"] = len(C) + len(V)
    for rec in C:
        rep.nontrivial(("C", rec[0], tuple(rec[1]), tuple(rec[2])))
    for rec in V:
        rep.nontrivial(("V", rec[0], rec[5]))
    rep.cov["exhaustive"] = True
    rep.cov["rule"] = ("all six gateway classes x every subset of the documented keyword options (2^7 each) x representative values, "
                       "constructed for real and every effect attribute read back; every version string major 0..3 x minor 0..12 x patch "
                       "absent/0..3 plus non-numeric strings, floats and None, as gateway option and as presented node version, observed "
                       "through probe frames. Every record is non-trivial; distinct by its parameters.")
    rep.sample({"config_record": C[len(C) // 2]})
    rep.sample({"version_record": V[len(V) // 2]})
    rep.assumptions += ["host / port / serial device are not opened (constructors do not connect)",
                        "2.0 and 2.1 are not distinguishable by behaviour and form one observation class"]
    return rep.finish()


def replay(path):
    with open(path, encoding="utf-8") as fh:
        print(json.dumps(json.load(fh), indent=1)[:3000])
    return 0
