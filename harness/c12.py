"""C12 - saving replaces the persistence file atomically.

M: TLC checks AtomicReplace / LoadWhole / SaveCommitsCurrentSnapshot on spec/Persist.tla: every
   interleaving of the ten-label saver with crashes (with and without loss of unsynced data),
   failing operations, mutations and start-up loads.
B: the real save_sensors runs on a fault-injecting file system shim; for both formats, every prior
   on-disk configuration and EVERY file-system operation of the save as crash point (keep / lose
   unsynced data) or failing operation, a fresh gateway then loads, saves again and loads again. The
   operation trace and every loaded state are validated by TLC against Persist.tla.
"""
import json
import multiprocessing as mp
import os

from . import common, ptrace, tlc

PID = "C12"
PRIORS = ["none", "good", "bak", "tmp", "both", "symlink", "tmpfull"]


def count_ops(ext, split, prior):
    from .pdrv import PDriver
    d = PDriver(ext, split=split, symlink=prior == "symlink")
    _build_prior(d, prior)
    d.mutate()
    _, n = d.save()
    return n


def _build_prior(d, prior):
    if prior == "none":
        return
    if prior == "symlink":
        prior = "good"       # a good file reached through a symbolic link in another directory
    d.mutate()
    _, n = d.save()                        # good main
    if prior in ("bak", "both"):
        d.mutate()
        _, n2 = d.save()                   # count the operations of a save that has a main file
        d.mutate()
        d.save(("fail", n2 - 1))           # the final remove fails: a stale backup stays behind
    if prior in ("tmp", "both"):
        d.mutate()
        d.save(("fail", 2))                # a write fails: a stale, partial temp file stays behind
    if prior == "tmpfull":
        # a stale temp file that is COMPLETE and LONGER than what the next save writes: a save of a state with a long sketch
        # name fails at its first rename (after the temp file was written and closed), then the name becomes short again
        d.mutate()
        _, n2 = d.save()
        d.mutate(lines=["1;255;0;0;17;2.0\n", "1;255;3;0;11;" + "L" * 400 + "\n"])
        d.save(("fail", n2 - 3))
        d.mutate(lines=["1;255;3;0;11;s\n"])


def scenario(args):
    import logging
    logging.disable(logging.CRITICAL)
    from .pdrv import PDriver
    ext, split, prior, kind, k, seed = args
    d = PDriver(ext, split=split, seed=seed, symlink=prior == "symlink")
    _build_prior(d, prior)
    d.mutate()
    if kind == "fail":
        fired, _ = d.save(("fail", k))
        if not fired:
            return None
        # the failure must leave a loadable state, whichever way the process later dies
        d.crash_now(seed % 2 == 0)
        d.startup()
    else:
        fired, _ = d.save((kind, k))
        if not fired:
            return None
        d.startup()
    # "... and the next save succeeds"
    d.mutate()
    d.save()
    d.crash_now(True)
    d.startup()
    return d.trace({"prior": prior, "fault": kind, "k": k, "split": split})


def run(tier):
    rep = common.Report(PID, tier)
    wd = common.workdir(PID)
    for cfgname in ("Persist", "Persist_live"):
        r = tlc.run("Persist", os.path.join(common.SPEC, cfgname + ".cfg"), workdir=os.path.join(wd, cfgname), timeout=900)
        if r.violation:
            raise tlc.MachineryError(f"Persist.tla self-check failed ({cfgname}): {r.trace_text[:2000]}")
        tlc.must_ok(r, cfgname)
        rep.add_tlc(cfgname, r)
    jobs = []
    priors = PRIORS if tier == "thorough" else ["none", "good", "both", "symlink", "tmpfull"]
    for ext, splits in (("json", [0]), ("pickle", [0, 48] if tier == "quick" else [0, 16, 48])):
        for split in splits:
            for prior in priors:
                n = count_ops(ext, split, prior)
                if n < 4:
                    # the fault-free save did nothing the shim can see (on the unchanged code: never).  Whatever the library
                    # does instead, this check would explore nothing - which must not read as "held"
                    raise tlc.MachineryError(f"the fault-free save ({ext}, prior {prior}) performs {n} observable file operations "
                                             "on the shim: the save path uses something the shim does not model")
                step = 1 if (tier == "thorough" or ext == "pickle") else 1
                for k in range(0, n, step):
                    for kind in ("fail", "crash-keep", "crash-lose"):
                        jobs.append((ext, split, prior, kind, k, len(jobs)))
    with mp.get_context("fork").Pool(common.ncpu()) as pool:
        traces = [t for t in pool.map(scenario, jobs, chunksize=16) if t is not None]
    rej, stats = ptrace.validate(traces, os.path.join(wd, "val"))
    rep.cov["states"] += stats["states"]
    rep.cov["transitions"] += stats["generated"]
    rep.cov["traces_validated_against_impl"] = len(traces)
    rep.cov["evaluations"] = len(traces)
    for t in traces:
        rep.nontrivial((t["cfg"]["ext"], t["cfg"]["prior"], t["cfg"]["fault"], t["cfg"]["k"], t["cfg"]["split"]))
    for r in rej:
        ev = r["trace"]["ev"][r["index"] - 1]
        c = r["trace"]["cfg"]
        sig = {"clauses": r["clauses"], "event": ev["a"], "ext": c["ext"], "fault": c["fault"]}
        rep.violation(sig, {"cfg": c, "script": r["trace"]["script"], "rejected_at": r["index"],
                            "events": [e["a"] + ("(lose)" if e.get("lose") else "") + (f"->{e['loaded']}" if e["a"] == "StartUp" else "")
                                       for e in r["trace"]["ev"]]})
    rep.cov["exhaustive"] = tier == "thorough"
    rep.cov["rule"] = ("for each format (pickle also with writes split into 16/48-byte chunks) x prior configuration "
                       f"{priors} x every operation index of the save x {{failing op, crash keeping, crash losing unsynced data}}: "
                       "run the real save on the shim, then load, save, crash-lose, load. Every trace is non-trivial; distinct by "
                       "(format, prior, fault kind, operation index, split).")
    if traces:
        t = traces[len(traces) // 2]
        rep.sample({"cfg": t["cfg"], "events": [e["a"] for e in t["ev"]]})
    rep.assumptions += ["file-system model: data reaches the medium only by fsync; create/rename/remove are atomic, ordered and durable "
                        "(journalled metadata); no directory fsync modelled", "the shim replaces open/os as seen from mysensors.persistence"]
    return rep.finish()


def replay(path):
    with open(path, encoding="utf-8") as fh:
        print(json.dumps(json.load(fh), indent=1)[:3000])
    return 0
