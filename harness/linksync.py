"""Real threaded SerialGateway / TCPGateway on fake devices and a virtual clock.

Every library thread is always either running or parked inside a fake primitive; the harness
waits for QUIESCENCE, defined under one lock: every live non-main thread is parked AND every
parked thread's wake predicate is false.  All harness actions mutate the world under that lock
and notify (DESIGN section 5 C20, section 10 lesson).
"""
import threading
import time as realtime

R = 10.0          # reconnect timeout in virtual seconds
UNIT = 1.0 / 16   # one specification tick (exactly representable: no float trouble at the watchdog boundaries)
RT = 160          # R in ticks
EPOCH = 1700000000.0


class World:
    def __init__(self):
        self.cv = threading.Condition()
        self.now = 0.0
        self.parked = {}
        self.attempts = []       # virtual times of connect attempts
        self.plan = []           # outcomes of the next attempts: True ok / False fail (default ok)
        self.conns = []          # fake devices in order of creation
        self.events = []         # ("made", t) / ("lost", t, exc name or None)
        self.stopped_at = None
        self.after_stop = []
        self.gw = None
        self.base_threads = set()
        self.dialing = 0         # dials in flight (parked inside the device-opening call)
        self.releases = 0
        self.orphans = 0         # devices opened by a dial that ended after stop()

    def park(self, pred):
        me = threading.get_ident()
        with self.cv:
            self.parked[me] = pred
            self.cv.notify_all()
            while not pred():
                self.cv.wait(0.01)        # predicates may depend on flags the library flips without notifying (ReaderThread.alive)
            del self.parked[me]

    def do(self, f):
        with self.cv:
            r = f()
            self.cv.notify_all()
        return r

    def quiesce(self, timeout=20):
        end = realtime.time() + timeout
        with self.cv:
            while True:
                lib = [t for t in threading.enumerate() if t.ident not in self.base_threads and t.is_alive()]
                if all(t.ident in self.parked for t in lib) and not any(p() for p in list(self.parked.values())):
                    return True
                if realtime.time() > end:
                    return False
                self.cv.wait(0.005)

    def note(self, what):
        if self.stopped_at is not None:
            self.after_stop.append(what)

    def dial(self):
        """Entry of a device-opening call: count the attempt; an attempt planned as "hold" stays in flight until released.
        Returns the outcome."""
        self.attempts.append(self.now)
        self.note(("attempt", self.now))
        ok = self.plan.pop(0) if self.plan else True
        if ok == "hold":
            with self.cv:
                self.dialing += 1
            self.park(lambda: self.releases > 0)
            with self.cv:
                self.releases -= 1
                self.dialing -= 1
                ok = self.plan.pop(0) if self.plan else True
        return ok

    def new_conn(self, c):
        if self.stopped_at is not None:
            c.orphan = True
            self.orphans += 1
        self.conns.append(c)


class FakeTime:
    def __init__(self, world, kind):
        self.w, self.kind = world, kind

    # every clock the library might read is virtual; like the real ones, the wall clock and the monotonic clock are far apart
    def time(self):
        return EPOCH + self.w.now

    def monotonic(self):
        return self.w.now
    perf_counter = monotonic

    def sleep(self, d):
        w = self.w
        if self.kind == "pump":
            q, ev = w.gw.tasks.queue, w.gw.tasks._stop_event
            w.park(lambda: bool(q) or ev.is_set())
        elif d >= 1.0:                      # reconnect wait
            t_end = w.now + d
            w.park(lambda: w.now >= t_end)
        else:                               # reader loop tick of TCPTransport.run
            t0 = w.now
            me = threading.current_thread()
            w.park(lambda: w.now > t0 or not getattr(me, "alive", True) or any(c.rx for c in w.conns if c.is_open))


class FakeSerial:
    def __init__(self, world, idx):
        self.w, self.idx = world, idx
        self.is_open, self.in_waiting, self.rx, self.written = True, 0, [], []
        self.cancelled = False
        self.orphan = False
        self.timeout = None
        self.fail_writes = False
        self.kind = "serial"

    def read(self, n):
        import serial
        w = self.w
        w.park(lambda: bool(self.rx) or self.cancelled or not self.is_open)
        with w.cv:
            if self.cancelled:
                self.cancelled = False
                return b""
            if not self.is_open:
                raise serial.SerialException("port closed")
            x = self.rx.pop(0)
        if isinstance(x, Exception):
            raise x
        return x

    def cancel_read(self):
        self.w.do(lambda: setattr(self, "cancelled", True))

    def write(self, data):
        import serial
        if self.fail_writes or not self.is_open:
            raise serial.SerialException("write failed")
        self.w.note(("write", data))
        self.written.append((data, self.w.now))
        return len(data)

    def close(self):
        self.w.do(lambda: setattr(self, "is_open", False))


class FakeSocket:
    def __init__(self, world, idx):
        self.w, self.idx = world, idx
        self.is_open, self.rx, self.written = True, [], []
        self.eof = False
        self.orphan = False
        self.fail_writes = False
        self.kind = "tcp"

    def setblocking(self, flag):
        pass

    def recv(self, n):
        with self.w.cv:
            if not self.is_open:
                raise OSError("bad file descriptor")
            if self.rx:
                x = self.rx.pop(0)
                if isinstance(x, Exception):
                    raise x
                return x
            if self.eof:
                return b""
            raise BlockingIOError()

    def readable(self):
        return bool(self.rx) or self.eof

    def sendall(self, data):
        if self.fail_writes or not self.is_open:
            raise OSError("broken pipe")
        self.w.note(("write", data))
        self.written.append((data, self.w.now))

    def close(self):
        self.w.do(lambda: setattr(self, "is_open", False))

    def shutdown(self, how):
        pass


def install(world, dev):
    """Patch the gateway modules' views of serial / socket / select / time (module attributes only)."""
    import serial
    import socket as realsocket
    import mysensors.gateway_serial as GS
    import mysensors.gateway_tcp as GT
    import mysensors.task as TASK

    def det_connect(self):
        # ReaderThread.connect() races with the reader thread's start-up (it looks at self.alive, then waits for an event
        # that a crashing reader never sets).  The harness fixes ONE schedule: the reader gets through its start-up first.
        world.park(lambda: self._connection_made.is_set() or not self.is_alive())
        return serial.threaded.ReaderThread.connect(self)

    class ThreadedProxy:
        class ReaderThread(serial.threaded.ReaderThread):
            connect = det_connect

    class SerialProxy:
        SerialException = serial.SerialException
        threaded = ThreadedProxy
        tools = serial.tools

        @staticmethod
        def serial_for_url(port, baud, timeout=None):
            ok = world.dial()
            if not ok:
                raise serial.SerialException("could not open port")
            c = FakeSerial(world, len(world.conns))
            if ok == "okerr":
                c.rx.append(serial.SerialException("device disconnected right after opening"))
            world.new_conn(c)
            return c

    class SocketProxy:
        timeout = realsocket.timeout

        @staticmethod
        def create_connection(addr, timeout=None):
            ok = world.dial()
            if ok == "timeout":
                raise realsocket.timeout("timed out")
            if not ok:
                raise OSError("connection refused")
            c = FakeSocket(world, len(world.conns))
            if ok == "okerr":
                c.rx.append(OSError("connection reset right after connect"))
            world.new_conn(c)
            return c

    class SelectProxy:
        @staticmethod
        def select(r, w, x, timeout=None):
            s = r[0]
            if not s.is_open:
                raise OSError("bad file descriptor")
            return ([s] if s.readable() else [], [s], [])

    orig_tcp = getattr(GT, "_verif_orig_TCPTransport", GT.TCPTransport)
    GT._verif_orig_TCPTransport = orig_tcp

    class DetTCPTransport(orig_tcp):
        connect = det_connect
    GT.TCPTransport = DetTCPTransport
    GS.serial = SerialProxy
    GS.time = FakeTime(world, "conn")
    GT.socket = SocketProxy
    GT.select = SelectProxy
    GT.time = FakeTime(world, "conn")
    TASK.time = FakeTime(world, "pump")


class SyncLink:
    """One real threaded gateway under observation."""

    def __init__(self, dev, version="2.2"):
        from mysensors import mysensors as m
        self.dev = dev
        self.w = World()
        self.w.base_threads = {t.ident for t in threading.enumerate()}
        self.w.thread_errors = []
        threading.excepthook = lambda a: self.w.thread_errors.append(f"{a.thread.name}: {a.exc_type.__name__}")   # recorded, not printed
        install(self.w, dev)
        if dev == "serial":
            self.gw = m.SerialGateway("/dev/fake", reconnect_timeout=R, protocol_version=version)
        else:
            self.gw = m.TCPGateway("10.0.0.1", reconnect_timeout=R, protocol_version=version)
            # a second, idle gateway object in the same process: gateways must not share mutable state
            self.decoy = m.TCPGateway("10.0.0.2", reconnect_timeout=R, protocol_version=version)
        self.w.gw = self.gw
        w = self.w
        self.gw.on_conn_made = lambda g: (w.events.append(("made", w.now)), w.note(("made", w.now)))
        self.gw.on_conn_lost = lambda g, e: (w.events.append(("lost", w.now, type(e).__name__ if e else None)),
                                              w.note(("lost", w.now)))
        self.ok = True

    def _q(self):
        if not self.w.quiesce():
            self.ok = False

    def start(self, plan=()):
        self.w.plan = list(plan)
        self.gw.start()
        self._q()

    def advance(self, ticks, plan=()):
        self.w.plan += list(plan)
        self.w.do(lambda: setattr(self.w, "now", self.w.now + ticks * UNIT))
        self._q()

    def live(self):
        return [c for c in self.w.conns if c.is_open and not c.orphan]

    def release(self, ok):
        """The dial in flight ends with this outcome."""
        if not self.w.dialing:
            return False
        def f():
            self.w.plan.insert(0, ok)
            self.w.releases += 1
        self.w.do(f)
        self._q()
        return True

    def read_error(self):
        import serial
        c = self.live()[-1]
        exc = serial.SerialException("device disconnected") if self.dev == "serial" else OSError("connection reset by peer")
        self.w.do(lambda: c.rx.append(exc))
        self._q()

    def peer_close(self):
        c = self.live()[-1]
        self.w.do(lambda: setattr(c, "eof", True))
        self._q()

    def data(self, payload):
        c = self.live()[-1]
        self.w.do(lambda: c.rx.append(payload))
        self._q()

    def send(self, text="0;255;3;0;2;\n", fail=False):
        c = self.live()[-1] if self.live() else None
        if c is not None and fail:
            c.fail_writes = True
        self.w.do(lambda: self.gw.tasks.add_job(lambda: text))
        self._q()

    def stop(self):
        self.gw.stop()
        self.w.do(lambda: setattr(self.w, "stopped_at", self.w.now))
        self._q()

    def observe(self):
        w = self.w
        made = [e for e in w.events if e[0] == "made"]
        lost = [e for e in w.events if e[0] == "lost"]
        probes = sum(1 for c in w.conns for (d, t) in c.written if d == b"0;255;3;0;2;\n")
        lib = [t for t in threading.enumerate() if t.ident not in w.base_threads and t.is_alive()]
        return {"now": int(round(w.now / UNIT)), "made": len(made), "lost": len(lost), "lostexc": [1 if e[2] else 0 for e in lost],
                "attempts": [int(round(t / UNIT)) for t in w.attempts], "nconn": len([c for c in w.conns if not c.orphan]), "live": len(self.live()), "orphans": w.orphans,
                "probes": probes, "after_stop": len(w.after_stop), "threads": len(lib), "quiescent": self.ok}

    def shutdown(self):
        """End every library thread (harness cleanup, not part of the observation)."""
        try:
            if self.w.stopped_at is None:
                self.gw.stop()
        except Exception:  # pylint: disable=broad-except
            pass
        for _ in range(6):
            self.w.do(lambda: setattr(self.w, "now", self.w.now + 100 * R))
            self.w.quiesce(2)
        for c in self.w.conns:
            c.close()
        self.w.quiesce(2)
