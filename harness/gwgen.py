"""Protocol-aware random histories for the real gateway (concrete, deep, many nodes)."""
import os
import random

from .gwdrv import Driver
from .payload import Interner, version_clear

TEXTS = ["", "0", "1", "43", "57", "100", "101", "-1", "3.5", "abc", "\xfcn\xef", "\U0001f600", "a b", " lead",
         "x" * 50, "M", "I", "Off", "HeatOn", "Auto", "Max", "ff0000", "ff0000ff", "55.7,13.2,12", "1e1",
         "٥٠", "+5", "1_0", "0.5", "-0.5", "99.9", "12345678901234567890", "CoolOn", "Normal", "zz",
         "light", "{\"k\": 1}", "\\", "'q'", "tab\there", "é́", "254", "255", "7"]
# a lone surrogate (what surrogateescape decoding of a stray byte leaves in a str) is not well-formed Unicode: it cannot be
# sent over any transport (UTF-8), so only the persistence round trip (C11, recording transport) is asked to carry it
LONE_SURROGATE = "caf\udce9"
VERSIONS_TXT = ["1.4", "1.5", "2.0", "2.1", "2.2", "2.2.0", "2.0.0", "2.1.1", "1.3", "0.9", "abc", "", "2.3",
                "1.10", "1.4.1", "3.0", "1.5.0", "nope"]
SUGGEST = {2: ["0", "1"], 15: ["0", "1"], 16: ["0", "1"], 36: ["0", "1"], 3: ["0", "50", "100"],
           23: ["0", "43", "57", "99.9"], 21: ["Off", "HeatOn"], 22: ["Auto", "Max", "0", "1"],
           40: ["ff0000"], 41: ["ff0000ff"], 44: ["20"], 45: ["21.5"], 49: ["55.7,13.2,12"], 56: ["0.5", "-0.5"]}
FW_GOOD_CFG = "010001005000D4460102"
SPELLINGS = {"1.4": ["1.4", "1.4", "1.4.1", "1.4.0", "nonsense", "1.3"], "1.5": ["1.5", "1.5", "1.5.0", "1.10", "1.9.3"],
             "2.0": ["2.0", "2.0", "2.0.0", "2.0.5"], "2.1": ["2.1", "2.1", "2.1.1", "2.1.0"],
             "2.2": ["2.2", "2.2", "2.2.0", "2.3", "3.0.1", "2.12"]}


def hexwords(*ws):
    return "".join("%02X%02X" % (w & 255, (w >> 8) & 255) for w in ws)


class Gen:
    def __init__(self, rng, version, profile=None):
        self.rng = rng
        self.v = version
        self.is2 = version in ("2.0", "2.1", "2.2")
        pool = [0, 1, 2, 3, 5, 42, 100, 253, 254, 255]
        self.nodes = rng.sample(pool, rng.randint(2, 4))
        if rng.random() < 0.7 and 1 not in self.nodes:
            self.nodes[0] = 1
        self.kids = rng.sample([0, 1, 2, 7, 254], rng.randint(1, 3))
        maxt = {"1.4": 39, "1.5": 46}.get(version, 56)
        self.types = rng.sample(range(0, maxt + 1), 3) + rng.sample(sorted(SUGGEST), 2)
        self.types = [t for t in self.types if t <= maxt] or [0]
        self.fws = [(rng.choice([1, 10, 65535]), rng.choice([1, 2, 300]))]
        self.p = {"pres": 10, "child": 12, "set": 22, "req": 10, "batt": 4, "idreq": 5, "config": 3, "time": 3,
                  "sketch": 4, "wake": 12, "hb": 3, "gwready": 2, "disc": 2, "otherint": 4, "fwcfg": 4, "fwreq": 5,
                  "otherstream": 1, "invalid": 8, "garbage": 5, "log": 1}
        if profile:
            self.p.update(profile)

    def n(self):
        return self.rng.choice(self.nodes) if self.rng.random() < 0.93 else self.rng.choice([0, 9, 200, 255])

    def c(self):
        return self.rng.choice(self.kids) if self.rng.random() < 0.9 else self.rng.choice([3, 100, 254])

    def t(self):
        return self.rng.choice(self.types) if self.rng.random() < 0.9 else self.rng.randint(0, 58)

    def val(self, t):
        if getattr(self, "extra_text", None) and self.rng.random() < 0.04:
            return self.extra_text
        if t in SUGGEST and self.rng.random() < 0.8:
            return self.rng.choice(SUGGEST[t])
        return self.rng.choice(TEXTS)

    def ack(self):
        return 1 if self.rng.random() < 0.15 else 0

    def line(self):
        r = self.rng
        kinds = list(self.p)
        k = r.choices(kinds, weights=[self.p[x] for x in kinds])[0]
        n, c, a = self.n(), self.c(), self.ack()
        if k == "pres":
            if r.random() < 0.8:
                return f"{n};255;0;{a};{r.choice([17, 18])};{r.choice(VERSIONS_TXT)}"
            txt = r.choice([x for x in TEXTS + VERSIONS_TXT if version_clear(x)])
            return f"{n};255;0;{a};{r.randint(0, 39)};{txt}"
        if k == "child":
            sub = r.randint(0, 39)
            pool = [x for x in TEXTS + VERSIONS_TXT if version_clear(x)] if sub in (17, 18) else TEXTS
            return f"{n};{c};0;{a};{sub};{r.choice(pool)}"
        if k == "set":
            t = self.t()
            return f"{n};{c};1;{a};{t};{self.val(t)}"
        if k == "req":
            return f"{n};{c};2;{a};{self.t()};{'' if r.random() < 0.9 else 'x'}"
        if k == "batt":
            return f"{n};255;3;{a};0;{r.choice(['0', '77', '100', '101', '-1', 'x', ' 50'])}"
        if k == "idreq":
            return r.choice(["255;255;3;0;3;", f"{n};255;3;0;3;", f"255;{c};3;{a};3;", "255;255;3;0;3;x"])
        if k == "config":
            return f"{n};255;3;{a};6;{r.choice(['0', '1', 'M', ''])}"
        if k == "time":
            return f"{n};255;3;{a};1;"
        if k == "sketch":
            return f"{n};255;3;{a};{r.choice([11, 12])};{r.choice(TEXTS)}"
        if k == "wake":
            sub = 32 if self.v == "2.2" else 22
            return f"{n};255;3;{a};{sub};{r.choice(['500', '0', '1000000', 'x'])}"
        if k == "hb":
            return f"{n};255;3;{a};22;{r.choice(['500', '7', '12345678901234567890', '-3', 'q'])}"
        if k == "gwready":
            return f"{r.choice([0, n])};255;3;{a};14;Gateway startup complete."
        if k == "disc":
            return f"{n};255;3;{a};21;{r.choice(['0', '254', '255'])}"
        if k == "log":
            return f"0;255;3;0;9;{r.choice(TEXTS)}"
        if k == "otherint":
            return f"{n};255;3;{a};{r.randint(0, 35)};{r.choice(TEXTS)}"
        if k == "fwcfg":
            pl = r.choice([FW_GOOD_CFG, hexwords(self.fws[0][0], self.fws[0][1], 5, 6, 7), "zz", "0100", "", "0100010000",
                           FW_GOOD_CFG + "00", FW_GOOD_CFG.lower(), "0100 0100 5000 D446 0102", "01000100 5000D4460102",
                           "0x0100010050", "01000100500\tD4460102"])
            return f"{n};255;4;{a};0;{pl}"
        if k == "fwreq":
            f = r.choice(self.fws + [(9, 9), (0, self.fws[0][1]), (self.fws[0][0], 0), (0, 0)])
            good = hexwords(f[0], f[1], r.choice([0, 1, 7, 8, 500]))
            pl = r.choice([good, good, "zz", "0100", "", "01000200030", "é", good[:4] + " " + good[4:8] + " " + good[8:],
                           good[:6] + "  " + good[6:], " " + good])
            return f"{n};255;4;{a};2;{pl}"
        if k == "otherstream":
            return f"{n};255;4;{a};{r.choice([1, 3, 4, 5])};{r.choice(TEXTS)}"
        if k == "invalid":
            return r.choice([
                f"{n};{c};1;2;{self.t()};1", f"256;{c};1;0;0;1", f"{n};255;1;0;0;1", f"{n};{c};3;0;0;5",
                f"{n};{c};7;0;0;", f"-1;0;0;0;0;", f"{n};{c};1;0;99;1", f"{n};255;3;0;77;", f"{n};{c};2;0;0;zz",
                f"{n};255;0;0;17;1.3", f"{n};{c};1;0;2;2", f"{n};{c};1;0;3;101", f"{n};256;0;0;3;x",
                # stream sub-types 3 / 4 (the numbers of the id request / response among the internal ones) for a child
                f"{n};{r.choice([0, 1, 7])};4;0;{r.choice([3, 4])};00", f"{n};{r.choice([0, 1, 7])};4;0;{r.choice([0, 2])};0A000100"])
        return r.choice(["", "bad;bad;bad;bad;bad;bad", "1;2;3", "1;2;3;4;5;6;7", ";;;;;", "1;0;1;0;", "\x00\x01",
                         "1;0;1;0;23", "a;0;1;0;23;5", "1;0;1;0;23;5;", "ÿþ", "1; ;1;0;23;5", " ", "1;0;1;0;2_3x;5"])


# (the Python object None is not among the values: for a smart-sleep node the library reads it as "nothing desired", which is
# its own representation of that, while the properties speak about values / text)
HARSH_VALUES = ["a;b", "line\nbreak", "", " ", "x" * 300, "\U0001f600;", ";", "1;0;1;0;2;1", "None", 3.5, True, b"b", ["l"],
                "tr ", "\r"]


def _prefix(drv, gen, rng, kind, flavour, hexfile):
    """Scripted openings that establish the interesting state quickly (then the walk is random)."""
    n = gen.nodes[0]
    c = gen.kids[0]
    t = rng.choice(gen.types)
    nodever = rng.choice(["2.2.0", "2.0", "1.4", "2.1.1", "abc"])
    lines = [f"{n};255;0;0;17;{nodever}", f"{n};{c};0;0;{rng.randint(0, 25)};child", f"{n};{c};1;0;{t};{gen.val(t)}"]
    if kind == "sleep" and gen.is2:
        sub = 32 if gen.v == "2.2" else 22
        lines.append(f"{n};255;3;0;{sub};500")
    for ln in lines:
        drv.recv(ln + "\n")
        if flavour == "sync":
            while drv.gw.tasks.queue:
                drv.pump()
    if kind == "ota":
        f = gen.fws[0]
        drv.update_fw([n] + gen.nodes[1:2], f[0], f[1], hexfile)
        gen.ota_nodes = [n]


def run_history(rng, version, flavour, steps, *, profile=None, calls=True, persist=None, raising_cb=False,
                pump_bias=0.7, hexfile=None, clock=True, mqtt=False, harsh=False, prefix=None,
                tick_p=0.06, restart_p=0.03, snap_dir=None, snap_p=0.0, no_callback=False, real_link=None, surrogate=False):
    """One random history on a fresh gateway; returns the trace dict."""
    # a quarter of the histories run with the library's loggers at DEBUG (into nowhere): logging must not change behaviour
    import logging
    lg = logging.getLogger("mysensors")
    if not lg.handlers:
        lg.addHandler(logging.NullHandler())
    lg.setLevel(logging.DEBUG)
    lg.propagate = False
    logging.disable(logging.NOTSET if rng.random() < 0.25 else logging.CRITICAL)
    interner = Interner()
    if real_link is None:
        real_link = not mqtt and rng.random() < 0.5
    tcp = not mqtt and not real_link and rng.random() < 0.5        # the TCP gateway classes instead of the base classes
    gen = Gen(rng, version, profile)
    react_fw = rng.choice(gen.fws) if (not no_callback and rng.random() < 0.25) else None
    # an application that answers reports with commands from inside its event callback (drawn independently of react_fw)
    react_set = None
    if not no_callback and rng.random() < 0.3:
        t2 = gen.t()
        react_set = [t2, rng.choice([gen.val(t2), gen.val(t2), 1, 57]), gen.ack()]
    drv = Driver(version, flavour, interner, persistence_file=persist, raising_cb=raising_cb, mqtt=mqtt, no_callback=no_callback,
                 spelling=rng.choice(SPELLINGS[version]), real_link=real_link, tcp=tcp, react_fw=react_fw, react_set=react_set)
    gen.extra_text = LONE_SURROGATE if surrogate else None
    gen.ota_nodes = []
    gen.pending = []

    def early():
        # The README asks for persistence to be started before the gateway, but a line may still race start_persistence()
        # (the repository's own tests do this).  Id requests are left out: an id handed out before the file is loaded
        # cannot take the file into account, whatever the library does.
        for _ in range(rng.choice([0, 0, 1, 2, 3])):
            ln = gen.line()
            if ";3;0;3;" in ln or ";3;1;3;" in ln:
                continue
            drv.recv(ln + "\n")
            if flavour == "sync" and rng.random() < 0.7:
                while drv.gw.tasks.queue:
                    drv.pump()

    if persist:
        early()
        drv.start_persistence()
    if prefix == "mix":
        prefix = rng.choice([None, "sleep", "ota", "sleep"])
    if prefix:
        _prefix(drv, gen, rng, prefix, flavour, hexfile)
    for _ in range(steps):
        x = rng.random()
        if flavour == "sync" and drv.gw.tasks.queue and x < pump_bias:
            drv.pump()
            continue
        x = rng.random()
        if drv.real_link and rng.random() < (0.04 if drv.linkup else 0.25):
            drv.link(not drv.linkup)        # the connection to the gateway device drops / is back
            continue
        if gen.pending and rng.random() < 0.3:
            # the node applies a value the controller asked for and reports exactly that value
            n_, c_, t_, v_ = gen.pending.pop(rng.randrange(len(gen.pending)))
            drv.recv(f"{n_};{c_};1;0;{t_};{v_}\n")
            continue
        if snap_dir and rng.random() < snap_p:
            drv.snapshot(snap_dir)
            continue
        if calls and x < 0.12:
            t = gen.t()
            if harsh and rng.random() < 0.4:
                value = rng.choice(HARSH_VALUES)
                tt = rng.choice([t, t, -1, 999, "x", None, "2.5"])
                if isinstance(tt, int):
                    drv.set_child(gen.n(), gen.c(), tt, value, ack=gen.ack())
                else:
                    drv.set_child_raw(gen.n(), gen.c(), tt, value)
            else:
                n_, c_, v_ = gen.n(), gen.c(), rng.choice([gen.val(t), gen.val(t), 1, 0, 57])
                ev = drv.set_child(n_, c_, t, v_, ack=gen.ack(), key_as_str=rng.random() < 0.2)
                if ev["exc"] == "none" and isinstance(v_, str) and ";" not in v_:
                    gen.pending.append((n_, c_, t, v_))
        elif calls and x < 0.16:
            f = rng.choice(gen.fws + [(7, 7)])
            nids = rng.choice([gen.n(), [gen.n(), gen.n()], [], 9])
            r_ = rng.random()
            if hexfile and r_ < 0.12:
                # an image file that cannot be used: nothing may be scheduled
                drv.update_fw(nids, f[0], f[1], hexfile + rng.choice([".eof", ".zero", ".garbage", ".missing"]))
            elif r_ < 0.16:
                drv.update_fw(nids, rng.choice(["x", "", f[0]]), rng.choice(["1.0", "", "v2"]), None)
            else:
                drv.update_fw(nids, f[0], f[1], hexfile if (hexfile and rng.random() < 0.6) else None)
                if f in gen.fws:
                    gen.ota_nodes = (nids if isinstance(nids, list) else [nids])[:2]
        elif calls and x < 0.17:
            drv.set_metric(rng.random() < 0.5)
        elif calls and x < 0.18:
            drv.send(rng.choice(["255;255;3;0;2;\n", f"{gen.n()};{gen.c()};1;0;2;1\n", "0;255;3;0;18;\n"]))
        elif persist and x < 0.18 + tick_p:
            drv.tick()
        elif persist and x < 0.18 + tick_p + restart_p:
            inflight = None
            if not mqtt and rng.random() < 0.4:
                inflight = rng.choice(["255;255;3;0;3;\n", f"{gen.n()};255;0;0;17;2.0\n", gen.line() + "\n"])
            if mqtt and flavour == "async" and rng.random() < 0.5:
                drv.stop_same()             # the same gateway object is stopped and started again
            else:
                drv.stop_restart(inflight)
            early()
            drv.start_persistence()
        elif gen.ota_nodes and x < 0.45:
            n = rng.choice(gen.ota_nodes)
            f = rng.choice(gen.fws)
            if rng.random() < 0.4:
                ln = f"{n};255;4;0;0;{hexwords(f[0], rng.choice([f[1], 1]), 5, 6, 7)}"
            else:
                ln = f"{n};255;4;{gen.ack()};2;{hexwords(f[0], f[1], rng.choice([0, 1, 2, 12, 13, 14, 500]))}"
            drv.recv(ln + "\n")
        else:
            now = rng.randint(0, 2000000000) if clock else None
            drv.recv(gen.line() + rng.choice(["\n", "\n", "\r\n"]), now=now)
    if flavour == "sync":
        guard = 0
        while drv.gw.tasks.queue and guard < 200:
            drv.pump()
            guard += 1
    if snap_dir:
        drv.snapshot(snap_dir)
    drv.close()
    return drv.trace({"seed_note": "random"})
