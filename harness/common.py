"""Shared helpers: paths, seeds, evidence, known findings, verdict reporting."""
import hashlib
import json
import os
import shutil
import sys
import time

VERIF = os.path.dirname(os.path.dirname(os.path.abspath(__file__)))
SPEC = os.path.join(VERIF, "spec")
# VERIF_WORK / VERIF_EVID: scratch and evidence directories of a run that must not disturb /verif's own (the evaluation of a
# seeded change in a scratch worktree, next to other runs); the registered commands do not set them
WORK = os.environ.get("VERIF_WORK") or os.path.join(VERIF, ".work")
EVID = os.environ.get("VERIF_EVID") or os.path.join(VERIF, "evidence")
REPLAY = os.path.join(WORK, "replay")
REPO = os.environ.get("VERIF_REPO", "/repo")
IMPL_PY = "/venv/bin/python"


def ncpu():
    try:
        return max(1, min(16, len(os.sched_getaffinity(0))))
    except AttributeError:
        return max(1, min(16, os.cpu_count() or 1))


def seed():
    try:
        return int(os.environ.get("VERIF_SEED", "0"))
    except ValueError:
        return 0


def workdir(pid, fresh=True):
    d = os.path.join(WORK, pid)
    if fresh:
        shutil.rmtree(d, ignore_errors=True)
    os.makedirs(d, exist_ok=True)
    return d


def impl_env():
    e = dict(os.environ)
    e["PYTHONPATH"] = REPO + os.pathsep + VERIF
    e["PYTHONDONTWRITEBYTECODE"] = "1"
    e["PYTHONHASHSEED"] = "0"
    e["PYMYSENSORS_VERIF"] = "1"
    return e


def h(obj):
    return hashlib.sha1(json.dumps(obj, sort_keys=True, default=str).encode()).hexdigest()[:12]


class Known:
    """known_findings.json: committed, never written at run time."""

    def __init__(self):
        path = os.path.join(VERIF, "known_findings.json")
        self.entries = []
        if os.path.exists(path):
            with open(path, encoding="utf-8") as fh:
                self.entries = json.load(fh).get("findings", [])

    def open_for(self, pid):
        return [e for e in self.entries if e.get("property") == pid and e.get("status") == "open"]

    def match(self, pid, sig):
        """Return the open entry whose signature is a sub-dict of sig, else None."""
        for e in self.open_for(pid):
            want = e.get("signature", {})
            if all(sig.get(k) == v for k, v in want.items()):
                return e
        return None


class Report:
    """Collects violations / known findings / evidence for one check run."""

    def __init__(self, pid, tier, level="model_checking"):
        self.pid = pid
        self.tier = tier
        self.level = level
        self.t0 = time.time()
        self.violations = []      # (signature dict, replay path)
        self.known_hits = {}      # what -> count
        self.cov = {"states": 0, "transitions": 0, "traces_validated_against_impl": 0,
                    "evaluations": 0, "distinct_nontrivial": 0, "samples": [], "rule": "",
                    "tlc_runs": [], "actions": {}}
        self.assumptions = []
        self.known = Known()
        self._nontrivial = set()

    # ---- coverage bookkeeping
    def add_tlc(self, name, res):
        self.cov["states"] += res.distinct
        self.cov["transitions"] += res.generated
        self.cov["tlc_runs"].append({"name": name, "distinct": res.distinct, "generated": res.generated,
                                     "depth": res.depth, "wall_s": round(res.wall, 2)})
        for k, v in res.coverage.items():
            a = self.cov["actions"].setdefault(name, {})
            a[k] = v[1]

    def nontrivial(self, key):
        self._nontrivial.add(key)

    def sample(self, s, cap=6):
        if len(self.cov["samples"]) < cap:
            self.cov["samples"].append(s)

    # ---- verdicts
    def violation(self, sig, replay_obj):
        """Register a violation unless it matches an open known finding."""
        e = self.known.match(self.pid, sig)
        if e is not None:
            self.known_hits[e["what"]] = self.known_hits.get(e["what"], 0) + 1
            return False
        os.makedirs(REPLAY, exist_ok=True)
        path = os.path.join(REPLAY, f"{self.pid}_{h(sig)}.json")
        with open(path, "w", encoding="utf-8") as fh:
            json.dump({"property": self.pid, "signature": sig, "replay": replay_obj}, fh, indent=1, default=str)
        self.violations.append((sig, path))
        return True

    def finish(self):
        self.cov["distinct_nontrivial"] = len(self._nontrivial)
        if not self.cov["samples"]:
            self.cov["samples"] = ["(no sample recorded)"]
        ev = {
            "property_id": self.pid, "tier": self.tier, "seed": seed(), "level": self.level,
            "coverage": self.cov, "assumptions": self.assumptions,
            "wall_s": round(time.time() - self.t0, 2), "violations": len(self.violations),
            "known_findings_hit": self.known_hits,
        }
        os.makedirs(EVID, exist_ok=True)
        with open(os.path.join(EVID, f"{self.pid}.json"), "w", encoding="utf-8") as fh:
            json.dump(ev, fh, indent=1, default=str)
        for what, n in sorted(self.known_hits.items()):
            print(f"KNOWN-FINDING: property={self.pid} {what} (seen {n}x)")
        seen = set()
        for sig, path in self.violations[:10]:
            if path in seen:
                continue
            seen.add(path)
            print(f"VIOLATION property={self.pid} replay={path}")
            print("  signature:", json.dumps(sig, default=str)[:600])
        if self.violations:
            return 1
        if not self.cov["traces_validated_against_impl"] and not self.cov["evaluations"]:
            # a run in which nothing of the implementation was judged says nothing about the property (on the unchanged code every
            # check judges thousands of steps): it must not read as "held"
            die_machinery(f"{self.pid}: no execution of the implementation was validated (0 traces, 0 evaluations) - the harness "
                          "could not observe the code under test")
        print(f"OK property={self.pid} tier={self.tier} states={self.cov['states']} "
              f"traces={self.cov['traces_validated_against_impl']} evals={self.cov['evaluations']} "
              f"nontrivial={self.cov['distinct_nontrivial']} wall={ev['wall_s']}s")
        return 0


def die_machinery(msg):
    try:
        os.makedirs(WORK, exist_ok=True)
        with open(os.path.join(WORK, "machinery.log"), "a", encoding="utf-8") as fh:
            fh.write(time.strftime("%F %T ") + " ".join(sys.argv[1:]) + "\n" + str(msg)[-6000:] + "\n\n")
    except OSError:
        pass
    print("MACHINERY-ERROR:", msg, file=sys.stderr)
    sys.exit(2)
