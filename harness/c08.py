"""C08 - withheld traffic reaches the sleeping node exactly once, in order."""
from . import gwcheck, gwfocus

PID = "C08"
PROJ = ["out", "jobs", "trans", "exc", "cb"]
PROPS = ["BurstShape", "ConfirmedNeverResent", "QuietWhileAsleep"]
INVS = ["AcceptedImpliesDeliverable", "HeldAndQueuedValid", "Disciplines"]
VERS = ["2.0", "2.1", "2.2"]


def _burst_or_desired(ev):
    if ev["a"] == "SetChild":
        return True
    return any(d[1] for t in ev["st"]["trans"] for d in t[2]) and bool(ev["out"] or ev["st"]["jobs"])


def run(tier):
    focus = [("sleep", gwfocus.sleep, VERS, ["async", "sync"], False),
             ("sleepver", gwfocus.sleep_versions, VERS, ["async"], False)]
    chk = gwcheck.GwCheck(PID, tier, PROJ, focus=focus, versions=VERS, mc_props=PROPS, mc_invs=INVS,
                          mc_depth_quick=6, mc_depth_thorough=8,
                          profile={"wake": 24, "req": 14, "set": 22, "child": 14, "pres": 12, "garbage": 2, "invalid": 3,
                                   "fwcfg": 1, "fwreq": 1, "otherint": 2},
                          scripts=gwfocus.falsy_scripts(), nontrivial=_burst_or_desired)
    return chk.run()


def replay(path):
    return gwcheck.replay_file(path, PROJ)
