"""Drive the real persistence code (save_sensors / safe_load_sensors / the periodic schedules of
SyncTasks and AsyncTasks) on the fault-injecting file system and record one event per action of
spec/Persist.tla."""
import asyncio
import json
import random

from . import fsshim
from .gwdrv import RecTransport, FakeTimer

PATH = {"json": "/virt/state.json", "pickle": "/virt/state.pickle"}


class AsyncioProxy:
    """asyncio as seen from mysensors.task: sleep() parks on a future the harness releases."""

    def __init__(self):
        self.sleepers = []
        self.parked = None
    CancelledError = asyncio.CancelledError

    def get_running_loop(self):
        return asyncio.get_running_loop()

    async def sleep(self, delay):
        fut = asyncio.get_running_loop().create_future()
        self.sleepers.append(fut)
        if self.parked is not None:
            self.parked.set()
        await fut

    def __getattr__(self, name):
        return getattr(asyncio, name)


class PDriver:
    def __init__(self, ext, flavour="sync", split=0, seed=0, symlink=False):
        import mysensors
        import mysensors.task
        self.my = mysensors
        self.ext, self.flavour = ext, flavour
        self.rng = random.Random(seed)
        self.fs = fsshim.FS(split)
        self.path = PATH[ext]
        if symlink:
            # the configured persistence file is a symbolic link into another directory
            self.path = "/virt/link/" + PATH[ext].rsplit("/", 1)[1]
            self.fs.links[self.path] = "/virt/real/" + PATH[ext].rsplit("/", 1)[1]
        self.fs.main_path = self.path
        fsshim.install(self.fs)
        mysensors.task.threading.Timer = FakeTimer
        self.aproxy = None
        self.loop = None
        if flavour == "async":
            self.aproxy = AsyncioProxy()
            mysensors.task.asyncio = self.aproxy
            self.loop = asyncio.new_event_loop()
        else:
            mysensors.task.asyncio = asyncio
        self.versions = {json.dumps([]): 0}
        self.nextv = 1
        self.events = []
        self.script = []
        self.sched_on = False
        self.nmut = 0
        self._new_gateway()

    # ------------------------------------------------------------------ plumbing
    def _new_gateway(self):
        FakeTimer.armed = []
        cls = self.my.BaseSyncGateway if self.flavour == "sync" else self.my.BaseAsyncGateway
        self.gw = cls(RecTransport(), persistence=True, persistence_file=self.path, protocol_version="2.2")
        self.pers = self.gw.tasks.persistence
        self.sched_on = False
        self.save_task_dead = False

    def close(self):
        if self.loop is not None:
            try:
                for f in (self.aproxy.sleepers if self.aproxy else []):
                    if not f.done():
                        f.cancel()
                pending = [t for t in asyncio.all_tasks(self.loop) if not t.done()]
                for t in pending:
                    t.cancel()
                if pending:
                    self.loop.run_until_complete(asyncio.gather(*pending, return_exceptions=True))
            except Exception:  # pylint: disable=broad-except
                pass
            self.loop.close()
            self.loop = None

    def tree(self, sensors=None):
        sensors = self.gw.sensors if sensors is None else sensors
        out = []
        for nid in sorted(sensors):
            s = sensors[nid]
            kids = [[cid, ch.type, ch.description, sorted([[str(k), str(v)] for k, v in ch.values.items()])]
                    for cid, ch in sorted(s.children.items())]
            out.append([nid, s.type, s.protocol_version, s.battery_level, s.sketch_name, s.sketch_version, s.heartbeat, kids])
        return out

    def version_of(self, sensors=None):
        return self.versions.get(json.dumps(self.tree(sensors)), -3)

    def armed(self):
        if self.flavour == "sync":
            return len(FakeTimer.armed) > 0
        return bool(self.aproxy.sleepers) and not self.aproxy.sleepers[-1].done()

    def _obs(self, ev, listing=None, dirty=None):
        ev["files"] = listing if listing is not None else self.fs.listing()
        ev["dirty"] = bool(self.pers.need_save) if dirty is None else dirty
        ev["hassched"] = False
        ev["armed"] = self.armed()
        ev.setdefault("lose", False)
        ev.setdefault("v", 0)
        ev.setdefault("noticed", False)
        ev.setdefault("skipped", False)
        ev.setdefault("loaded", 0)
        ev.setdefault("raised", False)
        self.events.append(ev)
        return ev

    # ------------------------------------------------------------------ actions
    def _change_lines(self):
        self.nmut += 1
        k = self.nmut
        r = self.rng.random()
        nodes = sorted(self.gw.sensors)
        if not nodes or r < 0.34:
            nid = max(nodes or [0]) + 1 if len(nodes) < 6 else self.rng.choice(nodes)
            return [f"{nid};255;0;0;17;2.{k % 3}.{k}\n"]
        nid = self.rng.choice(nodes)
        kids = sorted(self.gw.sensors[nid].children)
        if not kids or r < 0.67:
            return [f"{nid};{len(kids)};0;0;3;child {k} é\n"]
        # exactly ONE line per mutation: a mutation is one atomic step of the specification (a two-line change that is
        # half included by a concurrent dump would be a state the version table does not know)
        if k % 2:
            return [f"{nid};255;3;0;11;sketch{k}\n"]
        return [f"{nid};{self.rng.choice(kids)};1;0;24;value {k}\n"]

    def mutate(self, record=True, lines=None):
        """A message changes the network (fresh version).  lines: the message(s) to use instead of a drawn one."""
        before = json.dumps(self.tree())
        for ln in (lines or self._change_lines()):
            self.gw.logic(ln)
        key = json.dumps(self.tree())
        if key == before or key in self.versions:
            return self.mutate(record)
        v = self.nextv
        self.nextv += 1
        self.versions[key] = v
        if record:
            self.script.append(["mutate"] + ([lines] if lines else []))
            self._obs({"a": "Mutate", "v": v, "noticed": False})
        return v

    def _translate(self, ops, listings, dirties, fault_kind, fault_index, returned_ok, lose=False, mutinfo=None):
        """Raw shim operations of one save_sensors call -> Persist.tla events."""
        n = len(ops) if fault_index is None else fault_index
        i = 0
        wrote = False

        mut_at = mutinfo[0] if mutinfo is not None else None

        def obs_after(k):
            if k + 1 < len(listings):
                # observations are sampled when the NEXT operation begins; if the concurrent message ran in between, the flag
                # sampled there already shows the message's mark: what held after operation k is the value sampled before it
                # (file operations do not touch the flag; only the very first step of a save may claim it)
                if mut_at is not None and k + 1 == mut_at and k >= 1:
                    return listings[k + 1], dirties[k]
                return listings[k + 1], dirties[k + 1]
            # after the last operation: the flag cannot be read between the operation and the return of
            # save_sensors; file operations never touch it, so its value before the operation is used
            return None, (dirties[k] if k < len(dirties) else None)
        if n == 0 and fault_index is None and returned_ok:
            self._obs({"a": "SaveBegin", "skipped": True})
            return
        pending = None
        while i < n:
            if mutinfo is not None and i == mutinfo[0]:
                # the message's own observation: sampled when the operation after it begins (after the last operation:
                # the message has marked the state unsaved)
                m_obs = (listings[i], dirties[i]) if i < len(listings) else (None, True)
                self._obs({"a": "Mutate", "v": mutinfo[1], "noticed": mutinfo[2]}, *m_obs)
                if mutinfo[2]:
                    return          # the dump raised: save_sensors unwound (covered by the Mutate action)
                mutinfo = None
            name, label, extra = ops[i]
            lst, dr = obs_after(i)
            if name == "write":
                pending = (lst, dr)
                i += 1
                continue
            if pending is not None:
                self._obs({"a": "Write"}, pending[0], pending[1])      # the dump returned: content complete
                pending = None
            if name == "isfile":
                self._obs({"a": "SaveBegin", "skipped": False}, lst, dr)
            elif name == "open":
                self._obs({"a": "Open"}, lst, dr)
            elif name == "flush":
                self._obs({"a": "Flush"}, lst, dr)
            elif name == "fsync":
                self._obs({"a": "Fsync"}, lst, dr)
            elif name == "close":
                self._obs({"a": "Close"}, lst, dr)
            elif name == "rename":
                self._obs({"a": "Ren1" if (label, extra) == ("main", "bak") else "Ren2" if (label, extra) == ("tmp", "main")
                           else "BadRename"}, lst, dr)
            elif name == "remove":
                self._obs({"a": "Rm" if label == "bak" else "BadRemove"}, lst, dr)
            i += 1
        if pending is not None and (fault_index is None or ops[fault_index][0] != "write"):
            self._obs({"a": "Write"}, pending[0], pending[1])
        if fault_kind == "fail":
            self._obs({"a": "Fail"})
        elif fault_kind == "noticed":
            pass
        elif fault_kind is None and returned_ok:
            self._obs({"a": "Clear"})

    def _install_contention(self, k, state):
        """Run an inbound message at the k-th object the serialiser visits (stand-in for the pump thread)."""
        import mysensors.persistence as P
        import mysensors.sensor as S
        drv = self
        count = {"n": 0}

        def hit():
            count["n"] += 1
            if count["n"] == k + 1 and state["at"] is None:
                state["at"] = len(drv.fs.ops)
                state["v"] = drv.mutate(record=False)
        orig_default = P.MySensorsJSONEncoder.default
        orig_getstate = S.Sensor.__getstate__

        def default(enc, o):
            hit()
            return orig_default(enc, o)

        def getstate(obj):
            hit()
            return orig_getstate(obj)
        P.MySensorsJSONEncoder.default = default
        S.Sensor.__getstate__ = getstate

        def restore():
            P.MySensorsJSONEncoder.default = orig_default
            S.Sensor.__getstate__ = orig_getstate
        return restore

    def _run_save(self, call, fault=None, contend=None):
        """call() runs save_sensors (directly or through a schedule). fault = None | ("fail"|"crash-keep"|"crash-lose", k)
        where k counts the fault points (open, writes, flush, fsync, close, renames, remove) of this save."""
        fs = self.fs
        base = len(fs.ops)
        listings, dirties = [], []
        target = {"n": -1}

        def on_op(i, name, label):
            listings.append(fs.listing())
            dirties.append(bool(self.pers.need_save))
            if fault and fault[0] != "deny" and name != "isfile":
                target["n"] += 1
                if target["n"] == fault[1]:
                    if fault[0] == "fail":
                        fs.fail_at = i
                    else:
                        fs.crash_at = i
        fs.on_op = on_op
        fs.fail_at = fs.crash_at = None
        crashed = False
        self.last_exc = None
        mut = {"at": None, "v": 0}
        restore = self._install_contention(contend, mut) if contend is not None else (lambda: None)
        self.swallowed = []
        fs.deny = bool(fault) and fault[0] == "deny"      # the writability pre-check of this attempt fails
        try:
            call()
        except fsshim.Crash:
            crashed = True
        except Exception as exc:  # pylint: disable=broad-except
            self.last_exc = exc      # save_sensors called directly propagates the failure to its caller
        finally:
            fs.on_op = None
            fs.deny = False
            restore()
        ops = fs.ops[base:]
        if fault and fault[0] == "deny" and [o[0] for o in ops] in ([], ["isfile"]) and self.last_exc is None:
            # the attempt ended at the pre-check, quietly (a library that does not pre-check simply saves: judged as a save)
            if self.pers.need_save or ops:
                self._obs({"a": "Denied"})
            else:
                self._obs({"a": "SaveBegin", "skipped": True})
            if self.sched_on and self.events:
                self.events[-1]["hassched"] = True
                self.events[-1]["armed"] = self.armed()
            return True, 0
        fidx = None
        if fs.fail_at is not None:
            fidx = fs.fail_at - base
        if fs.crash_at is not None:
            fidx = fs.crash_at - base
        fired = fidx is not None
        kind = None
        if fired:
            kind = "fail" if fault[0] == "fail" else "crash"
        mutinfo = None
        if mut["at"] is not None:
            # did the dump notice the change?  It did iff the save did not get past its writes.
            names = [o[0] for o in ops[mut["at"] - base:]]
            noticed = "flush" not in names and "rename" not in names and not fired
            mutinfo = (mut["at"] - base, mut["v"], noticed)
        self._translate(ops, listings, dirties, kind if kind == "fail" else None, fidx,
                        returned_ok=not fired, mutinfo=mutinfo)
        # whether the schedule re-armed is observable only once the call has returned: last event
        if self.sched_on and self.events and not (fired and kind == "crash"):
            self.events[-1]["hassched"] = True
            self.events[-1]["armed"] = self.armed()
        fs.fail_at = fs.crash_at = None
        if fired and kind == "crash":
            self.crash(fault[0] == "crash-lose")
        return fired, len([o for o in ops if o[0] != "isfile"])

    def save(self, fault=None, contend=None):
        self.script.append(["save", fault, contend])
        return self._run_save(self.pers.save_sensors, fault, contend)

    def crash(self, lose):
        """The process dies: the next process sees vol (lose=False) or dur (lose=True) content."""
        self.fs = self.fs.after_crash(lose)
        fsshim.install(self.fs)
        if self.aproxy:
            self.aproxy.sleepers = []
        self._new_gateway()
        self._obs({"a": "Crash", "lose": lose}, dirty=True)

    def crash_now(self, lose):
        self.script.append(["crash", lose])
        self.crash(lose)

    def startup(self):
        """safe_load_sensors of the new process."""
        self.script.append(["startup"])
        raised = False
        try:
            self.pers.safe_load_sensors()
        except Exception:  # pylint: disable=broad-except
            raised = True
        return self._obs({"a": "StartUp", "loaded": self.version_of(), "raised": raised})

    # ---- periodic schedule (C15)
    def start_schedule(self, fault=None, contend=None):
        self.script.append(["start_schedule", fault, contend])
        self.sched_on = True
        self._obs({"a": "StartSchedule"})
        if self.flavour == "sync":
            return self._run_save(self.pers.schedule_save_sensors, fault, contend)
        self.aproxy.parked = None

        def call():
            async def go():
                self.aproxy.parked = asyncio.Event()
                await self.pers.schedule_save_sensors()
                await self._until_parked()
            self.loop.run_until_complete(go())
        return self._run_save(call, fault, contend)

    async def _until_parked(self):
        try:
            await asyncio.wait_for(self.aproxy.parked.wait(), 1.5)
        except asyncio.TimeoutError:
            self.save_task_dead = True

    def tick(self, fault=None, contend=None):
        """The timer fires / the save loop wakes up."""
        self.script.append(["tick", fault, contend])
        if self.flavour == "sync":
            timers = list(FakeTimer.armed)
            if not timers:
                self._obs({"a": "TimerFires"})      # will be rejected: nothing armed
                return False, 0
            t = timers[0]
            FakeTimer.armed.remove(t)
            self._obs({"a": "TimerFires"})
            return self._run_save(t.function, fault, contend)
        if not self.aproxy.sleepers or self.aproxy.sleepers[-1].done():
            self._obs({"a": "TimerFires"})
            return False, 0
        fut = self.aproxy.sleepers.pop()
        self._obs({"a": "TimerFires"})

        def call():
            async def go():
                self.aproxy.parked = asyncio.Event()
                fut.set_result(None)
                await self._until_parked()
            self.loop.run_until_complete(go())
        return self._run_save(call, fault, contend)

    def trace(self, meta=None):
        return {"cfg": {"ext": self.ext, "flavour": self.flavour, **(meta or {})}, "ev": self.events, "script": self.script}
