"""C05 - every reply is the prescribed one, well-formed and correctly addressed."""
from . import gwcheck, gwfocus

PID = "C05"
PROJ = ["out", "jobs", "trans", "exc"]
PROPS = ["AddressedToRequesterOrBroadcast", "SilenceUnlessPrescribed", "NoEffectOnBad", "IdsInRangeAndFresh"]
INVS = ["EveryEmissionValid", "HeldAndQueuedValid", "Disciplines"]


def run(tier):
    focus = [("tree", gwfocus.tree, ["1.5", "2.0", "2.2"], ["async", "sync"], False),
             ("sleep", gwfocus.sleep, ["2.1", "2.2"], ["async"], False),
             ("ota", gwfocus.ota, ["1.4", "2.2"], ["async"], False)]
    chk = gwcheck.GwCheck(PID, tier, PROJ, focus=focus, mc_props=PROPS, mc_invs=INVS,
                          mc_depth_quick=4, mc_depth_thorough=5,
                          profile={"req": 18, "config": 6, "time": 6, "idreq": 8, "gwready": 4},
                          scripts=gwfocus.falsy_scripts(), nontrivial=lambda ev: bool(ev["out"]))
    return chk.run()


def replay(path):
    return gwcheck.replay_file(path, PROJ)
