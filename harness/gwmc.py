"""Model-check Gateway.tla over concrete focus alphabets (spec/GatewayMC.tla) and
produce TLC behaviours for replay into the real gateway."""
import json
import os
import re

from . import common, tlc
from .payload import Interner, describe

INVARIANTS = ["Disciplines", "EveryEmissionValid", "HeldAndQueuedValid", "AcceptedImpliesDeliverable",
              "RebootOnlyAfterUpdate", "StopLosesNothing"]
ACTION_PROPS = ["NoEffectOnBad", "NodesOnlyViaPresentationOrId", "ChildrenOnlyViaPresentation",
                "FirstPresentationWins", "LastWriterWins", "OneCallbackPerChange", "CallbackOnlyFromLines",
                "AddressedToRequesterOrBroadcast", "SilenceUnlessPrescribed", "IdsInRangeAndFresh",
                "QuietWhileAsleep", "BurstShape", "ConfirmedNeverResent", "OnlyScheduledNodesServed",
                "ConfigWithheldAfterFetchStarted", "BlocksOnlyAfterConfig", "MalformedFwRequestIgnored",
                "RebootUntilPresented"]


def line_rec(text, idx, interner):
    from .gwdrv import ref_decode
    from .payload import clamp_int
    wf, hdr, payload = ref_decode(text)
    if not wf:
        return {"id": idx, "wf": False, "h": {"n": 0, "c": 0, "cmd": 0, "ack": 0, "sub": 0}, "p": describe("", interner)}
    return {"id": idx, "wf": True, "h": dict(zip(["n", "c", "cmd", "ack", "sub"], [clamp_int(x) for x in hdr])),
            "p": describe(payload, interner)}


def write_alphabet(path, lines, calls, max_id, extra_tokens=()):
    """lines: list of line texts; calls: list of dicts (SetChild: n,c,t,value,ack / UpdateFw / Metric)."""
    interner = Interner()
    recs = [line_rec(t, i + 1, interner) for i, t in enumerate(lines)]
    toks = {}

    def add(text):
        d = describe(text, interner)
        toks[d["tok"]] = d
        return d
    for t in lines:
        from .gwdrv import ref_decode
        wf, _, payload = ref_decode(t)
        if wf:
            add(payload)
    crecs = []
    for c in calls:
        c = dict(c)
        if c["a"] == "SetChild":
            c["v"] = add(str(c.pop("value")))
            c.setdefault("ack", 0)
        crecs.append(c)
    for t in ["", "M", "I"] + [str(i) for i in range(0, max_id + 1)] + list(extra_tokens):
        add(t)
    with open(path, "w", encoding="utf-8") as fh:
        json.dump({"lines": recs, "calls": crecs, "toks": [[k, v] for k, v in toks.items()]}, fh)
    return recs, crecs


def write_cfg(path, ver, flavour, max_id, max_jobs, depth, persist, invariants=None, props=None, view=False, react=True):
    with open(path, "w", encoding="utf-8") as fh:
        fh.write("SPECIFICATION MCSpec\n")
        fh.write(f'CONSTANTS GwVer = "{ver}"\n Flavour = "{flavour}"\n MaxId = {max_id}\n MaxJobs = {max_jobs}\n'
                 f' IdGiveUpFree = FALSE\n MaxDepth = {depth}\n WithPersist = {"TRUE" if persist else "FALSE"}\n WithReact = {"TRUE" if react else "FALSE"}\n')
        fh.write("CONSTRAINT Bound\nCHECK_DEADLOCK FALSE\n")
        for inv in (INVARIANTS if invariants is None else invariants):
            fh.write(f"INVARIANT {inv}\n")
        for p in (ACTION_PROPS if props is None else props):
            fh.write(f"PROPERTY {p}\n")


def check(name, wd, ver, flavour, lines, calls, *, max_id=4, max_jobs=3, depth=7, persist=False, timeout=900,
          invariants=None, props=None):
    """Exhaustive bounded run. Returns TLCResult (violation set when a property fails on the MODEL)."""
    os.makedirs(wd, exist_ok=True)
    apath = os.path.join(wd, name + "_alpha.json")
    write_alphabet(apath, lines, calls, max_id)
    cfg = os.path.join(wd, name + ".cfg")
    write_cfg(cfg, ver, flavour, max_id, max_jobs, depth, persist, invariants, props)
    r = tlc.run("GatewayMC", cfg, workdir=os.path.join(wd, name), env={"ALPHABET_FILE": apath}, timeout=timeout,
                coverage=False)
    return r


_RE_ACT = re.compile(r"^/\\ last = (\[.*?\])\s*$", re.M | re.S)


def simulate(name, wd, ver, flavour, lines, calls, *, num, depth, seed, max_id=4, max_jobs=3, persist=False, timeout=600):
    """Random behaviours from TLC (-simulate file=...). Returns list of action-label sequences."""
    os.makedirs(wd, exist_ok=True)
    apath = os.path.join(wd, name + "_alpha.json")
    write_alphabet(apath, lines, calls, max_id)
    cfg = os.path.join(wd, name + "_sim.cfg")
    write_cfg(cfg, ver, flavour, max_id, max_jobs, depth, persist, invariants=[], props=[])
    simdir = os.path.join(wd, name + "_sim")
    import shutil
    shutil.rmtree(simdir, ignore_errors=True)
    os.makedirs(simdir)
    r = tlc.run("GatewayMC", cfg, workdir=os.path.join(wd, name + "_simrun"), workers=1,
                env={"ALPHABET_FILE": apath}, timeout=timeout, depth=depth, seed=seed,
                simulate=f"file={simdir}/b,num={num}")
    if r.error and "timed out" not in (r.error or ""):
        raise tlc.MachineryError(f"simulate {name}: {r.error}\n{r.out[-2000:]}")
    behaviours = []
    for fn in sorted(os.listdir(simdir)):
        with open(os.path.join(simdir, fn), encoding="utf-8") as fh:
            text = fh.read()
        acts = []
        for m in re.finditer(r"/\\ last = \[([^\]]*)\]", text):
            body = m.group(1)
            a = re.search(r'a \|-> "(\w+)"', body).group(1)
            i = int(re.search(r"i \|-> (\d+)", body).group(1))
            k = int(re.search(r"r \|-> (\d+)", body).group(1))      # the callback's re-entrant call (index into calls), 0 = none
            if a != "Init":
                acts.append((a, i, k))
        if acts:
            behaviours.append(acts)
    shutil.rmtree(simdir, ignore_errors=True)
    return behaviours, r
