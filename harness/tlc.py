"""Thin, careful wrapper around TLC (model checking, simulation, trace validation).

Never turns a TLC *failure* (parse error, evaluation error, timeout) into a verdict:
those raise MachineryError, which the check entry point maps to exit code 2.
"""
import os
import re
import shutil
import subprocess
import time

from . import common

JAR_CP = "/opt/veriftools/tla/tla2tools.jar:/opt/veriftools/tla/CommunityModules-deps.jar"


class MachineryError(Exception):
    """The verification machinery itself failed (not a property verdict)."""


class TLCResult:
    def __init__(self):
        self.rc = None
        self.out = ""
        self.generated = 0
        self.distinct = 0
        self.depth = 0
        self.violation = None      # None | "invariant X" | "action property X" | "deadlock" | "assumption" | "temporal" | "postcondition"
        self.error = None          # evaluation / parse errors (machinery)
        self.coverage = {}         # action name -> (distinct, total)
        self.prints = []           # raw PrintT lines
        self.wall = 0.0
        self.cmd = ""
        self.trace_text = ""       # counterexample text, if any

    def ok(self):
        return self.violation is None and self.error is None


_RE_STATES = re.compile(r"(\d+) states generated, (\d+) distinct states found")
_RE_DEPTH = re.compile(r"The depth of the complete state graph search is (\d+)")
_RE_COV = re.compile(r"^<(\w+) line \d+, col \d+ to line \d+, col \d+ of module (\w+)>: (\d+):(\d+)", re.M)
_RE_INV = re.compile(r"Error: Invariant (\S+) is violated")
_RE_ACT = re.compile(r"Error: Action property (\S+) is violated")


def run(module, cfg, **kw):
    """Run TLC; a run that dies for a reason unrelated to the specification (JVM could not start, resource
    exhaustion under load: exit code 255 without a TLC verdict) is retried, so that it never turns into a flaky
    machinery error. Parse / evaluation errors of the specification are deterministic and fail the same way again."""
    res = None
    for attempt in range(3):
        res = _run_once(module, cfg, **kw)
        if not res.error or res.violation:
            return res
        transient = ("Parse" not in res.out and "Semantic" not in res.out and "evaluat" not in res.out.lower()
                     and "Attempted to" not in res.out and "is not" not in res.out)
        if not transient:
            return res
        time.sleep(1.5 * (attempt + 1))
    return res


def _run_once(module, cfg, *, workdir, workers=None, env=None, timeout=600, simulate=None,
              depth=None, seed=None, coverage=False, deque=False, extra=(), cwd=None, dump=None):
    """Run TLC on spec/<module>.tla with config file cfg (path). Returns TLCResult."""
    os.makedirs(workdir, exist_ok=True)
    metadir = os.path.join(workdir, "meta")
    shutil.rmtree(metadir, ignore_errors=True)
    jtmp = os.path.join(workdir, "jtmp")          # TLC leaves a tlc-* directory in java.io.tmpdir per run: keep it out of /tmp
    os.makedirs(jtmp, exist_ok=True)
    java = ["java", "-XX:+UseParallelGC", "-Xmx6g", "-Djava.io.tmpdir=" + jtmp]
    if deque:
        java.append("-Dtlc2.tool.queue.IStateQueue=StateDeque")
    cmd = java + ["-cp", JAR_CP, "tlc2.TLC", "-config", cfg, "-metadir", metadir,
                  "-noGenerateSpecTE", "-workers", str(workers or common.ncpu())]
    if coverage:
        cmd += ["-coverage", "1"]
    if simulate:
        cmd += ["-simulate", simulate]
    if depth:
        cmd += ["-depth", str(depth)]
    if seed is not None:
        cmd += ["-seed", str(seed)]
    if dump:
        cmd += ["-dump", dump[0], dump[1]]
    cmd += list(extra)
    cmd += [module]
    e = dict(os.environ)
    e.update(env or {})
    res = TLCResult()
    res.cmd = " ".join(cmd)
    t0 = time.time()
    try:
        p = subprocess.run(cmd, cwd=cwd or common.SPEC, env=e, stdout=subprocess.PIPE,
                           stderr=subprocess.STDOUT, timeout=timeout, text=True, errors="replace")
        res.rc = p.returncode
        res.out = p.stdout
    except subprocess.TimeoutExpired as exc:
        out = exc.stdout or ""
        if isinstance(out, bytes):
            out = out.decode("utf-8", "replace")
        res.out = out
        res.rc = -9
        if not simulate:
            raise MachineryError(f"TLC timed out after {timeout}s: {res.cmd}\n{out[-2000:]}")
    finally:
        # (subprocess.run already killed the JVM on timeout; never pkill by path substring: a snapshot of /verif
        # running the same check elsewhere has the same path suffix)
        shutil.rmtree(metadir, ignore_errors=True)
        shutil.rmtree(jtmp, ignore_errors=True)
    res.wall = time.time() - t0
    out = res.out
    m = None
    for m in _RE_STATES.finditer(out):
        pass
    if m:
        res.generated, res.distinct = int(m.group(1)), int(m.group(2))
    m = _RE_DEPTH.search(out)
    if m:
        res.depth = int(m.group(1))
    for m in _RE_COV.finditer(out):
        res.coverage[m.group(1)] = (int(m.group(3)), int(m.group(4)))
    res.prints = [ln for ln in out.splitlines() if ln.startswith("<<") or ln.startswith('"')]
    m = _RE_INV.search(out)
    if m:
        res.violation = "invariant " + m.group(1)
    m2 = _RE_ACT.search(out)
    if m2:
        res.violation = "action property " + m2.group(1)
    if "Error: Deadlock reached" in out:
        res.violation = "deadlock"
    if "Temporal properties were violated" in out:
        res.violation = "temporal"
    if "Assumption line" in out and "is false" in out:
        res.violation = "assumption"
    if re.search(r"The postcondition .* is violated|Error: The postcondition", out):
        res.violation = "postcondition"
    if res.violation:
        i = out.find("Error:")
        res.trace_text = out[i:i + 20000]
    else:
        bad = None
        if res.rc not in (0, -9):
            bad = f"TLC exit code {res.rc}"
        for pat in ("Error: ", "***Parse Error***", "Fatal errors while parsing", "java.lang."):
            if pat in out:
                bad = (bad or "") + f" [{pat.strip()}]"
        if bad:
            res.error = bad
    return res


def must_ok(res, what):
    """Raise MachineryError if TLC itself failed; return res otherwise."""
    if res.error:
        raise MachineryError(f"{what}: TLC failed ({res.error})\n{res.cmd}\n{res.out[-4000:]}")
    return res


def sany(module, cwd=None):
    p = subprocess.run(["java", "-cp", JAR_CP, "tla2sany.SANY", module], cwd=cwd or common.SPEC,
                       stdout=subprocess.PIPE, stderr=subprocess.STDOUT, text=True)
    return p.returncode == 0 and "Semantic errors" not in p.stdout and "***Parse Error***" not in p.stdout, p.stdout
