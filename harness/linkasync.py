"""Real AsyncSerialGateway / AsyncTCPGateway on fake asyncio transports and a virtual-time event loop."""
import asyncio

R = 10.0          # reconnect timeout in virtual seconds
UNIT = 1.0 / 16   # one specification tick (exactly representable: no float trouble at the watchdog boundaries)
RT = 160          # R in ticks
EPOCH = 1700000000.0


class VLoop(asyncio.SelectorEventLoop):
    """Event loop whose clock is moved by the harness only."""

    def __init__(self):
        super().__init__()
        self.vnow = 0.0

    def time(self):
        return self.vnow


class FakeAioTransport(asyncio.Transport):
    def __init__(self, world, idx, protocol):
        super().__init__()
        self.w, self.idx, self.protocol = world, idx, protocol
        self.is_open = True
        self.orphan = False
        self.written = []
        self.fail_writes = False
        self.serial = self          # serial_asyncio transports expose .serial

    def write(self, data):
        if self.fail_writes or not self.is_open:
            raise OSError("write failed")
        self.w.note(("write", data))
        self.written.append((data, self.w.loop.vnow))

    def close(self):
        if self.is_open:
            self.is_open = False
            self.w.loop.call_soon(self.protocol.connection_lost, None)

    def is_closing(self):
        return not self.is_open

    def lose(self, exc):
        """The connection breaks (exc) or the peer closes it in an orderly way (None)."""
        if self.is_open:
            self.is_open = False
            self.w.loop.call_soon(self.protocol.connection_lost, exc)


class AWorld:
    def __init__(self):
        self.loop = VLoop()
        self.attempts, self.plan, self.conns, self.events = [], [], [], []
        self.stopped_at = None
        self.after_stop = []
        self.dials = []          # futures of dials in flight
        self.orphans = 0

    def new_conn(self, tr):
        tr.orphan = self.stopped_at is not None
        if tr.orphan:
            self.orphans += 1
        self.conns.append(tr)

    @property
    def now(self):
        return self.loop.vnow

    def note(self, what):
        if self.stopped_at is not None:
            self.after_stop.append(what)


def install(world, dev):
    import serial
    import mysensors.gateway_serial as GS
    import mysensors.gateway_tcp as GT

    class T:
        # every clock the library might read is virtual; like the real ones, the wall clock and the monotonic clock are far apart
        @staticmethod
        def time():
            return EPOCH + world.loop.vnow

        @staticmethod
        def monotonic():
            return world.loop.vnow
        perf_counter = monotonic

        @staticmethod
        def sleep(d):
            raise RuntimeError("blocking sleep in asyncio flavour")

    async def create_serial_connection(loop, factory, port, baud, **kw):
        world.attempts.append(world.now)
        world.note(("attempt", world.now))
        ok = world.plan.pop(0) if world.plan else True
        if not ok:
            raise serial.SerialException("could not open port")
        proto = factory()
        tr = FakeAioTransport(world, len(world.conns), proto)
        world.new_conn(tr)
        loop.call_soon(proto.connection_made, tr)
        if ok == "okerr":
            loop.call_soon(tr.lose, ConnectionResetError("lost right after connecting"))
        await asyncio.sleep(0)
        return tr, proto

    class SA:
        pass
    SA.create_serial_connection = staticmethod(create_serial_connection)
    GS.serial_asyncio = SA
    GT.time = T

    async def create_connection(factory, host=None, port=None, **kw):
        world.attempts.append(world.now)
        world.note(("attempt", world.now))
        ok = world.plan.pop(0) if world.plan else True
        if ok == "hold":                        # the dial stays in flight until the harness ends it (or it is cancelled)
            fut = world.loop.create_future()
            world.dials.append(fut)
            try:
                ok = await fut
            finally:
                world.dials.remove(fut)
        if ok == "timeout":
            await asyncio.sleep(10 ** 6)        # never completes: wait_for has to give up
        if not ok:
            raise OSError("connection refused")
        proto = factory()
        tr = FakeAioTransport(world, len(world.conns), proto)
        world.new_conn(tr)
        proto.connection_made(tr)
        if ok == "okerr":
            world.loop.call_soon(tr.lose, ConnectionResetError("lost right after connecting"))
        return tr, proto
    world.loop.create_connection = create_connection


class AsyncLink:
    def __init__(self, dev, version="2.2"):
        from mysensors import mysensors as m
        self.dev = dev
        self.w = AWorld()
        install(self.w, dev)
        asyncio.set_event_loop(self.w.loop)
        if dev == "serial":
            self.gw = m.AsyncSerialGateway("/dev/fake", reconnect_timeout=R, protocol_version=version)
        else:
            self.gw = m.AsyncTCPGateway("10.0.0.1", reconnect_timeout=R, protocol_version=version)
            # a second, idle gateway object in the same process: gateways must not share mutable state
            self.decoy = m.AsyncTCPGateway("10.0.0.2", reconnect_timeout=R, protocol_version=version)
        w = self.w
        self.gw.on_conn_made = lambda g: (w.events.append(("made", w.now)), w.note(("made", w.now)))
        self.gw.on_conn_lost = lambda g, e: (w.events.append(("lost", w.now, type(e).__name__ if e else None)),
                                              w.note(("lost", w.now)))
        self.ok = True
        self.start_task = None

    def _drain(self, rounds=30):
        async def spin():
            for _ in range(rounds):
                await asyncio.sleep(0)
        self.w.loop.run_until_complete(spin())

    def start(self, plan=()):
        self.w.plan = list(plan)
        # gateway.start() awaits the connect loop; run it as a task like an application would
        self.start_task = self.w.loop.create_task(self.gw.start())
        self._drain()

    def advance(self, ticks, plan=()):
        self.w.plan += list(plan)
        # one jump, like the threaded world: whatever became due runs at the new time
        self.w.loop.vnow = self.w.loop.vnow + ticks * UNIT
        self._drain()

    def live(self):
        return [c for c in self.w.conns if c.is_open and not c.orphan]

    def release(self, ok):
        """The dial in flight ends with this outcome (False when no dial is in flight any more, e.g. it was cancelled)."""
        if not self.w.dials:
            return False
        self.w.dials[0].set_result(ok)
        self._drain()
        return True

    def read_error(self):
        self.live()[-1].lose(ConnectionResetError("connection reset by peer"))
        self._drain()

    def peer_close(self):
        c = self.live()[-1]
        keep = c.protocol.eof_received() if hasattr(c.protocol, "eof_received") else None
        if not keep:
            c.lose(None)
        self._drain()

    def _in_loop(self, fn):
        async def call():
            fn()
        self.w.loop.run_until_complete(call())

    def data(self, payload):
        self._in_loop(lambda: self.live()[-1].protocol.data_received(payload))
        self._drain()

    def send(self, text="0;255;3;0;18;\n", fail=False):
        c = self.live()[-1] if self.live() else None
        if c is not None and fail:
            c.fail_writes = True
        self._in_loop(lambda: self.gw.tasks.add_job(lambda: text))
        self._drain()

    def stop(self):
        # stop() must return without time passing (it only cancels and closes); it is run as a task so that a stop() that
        # waits for something does not block the harness: that is recorded as "not quiescent"
        task = self.w.loop.create_task(self.gw.stop())
        self._drain(60)
        if not task.done():
            self.ok = False
            task.cancel()
            self._drain(5)
        elif task.cancelled() or task.exception() is not None:
            self.ok = False         # stop() raised (or was cancelled from inside): it did not complete
        self.w.stopped_at = self.w.now
        self._drain()

    def observe(self):
        w = self.w
        made = [e for e in w.events if e[0] == "made"]
        lost = [e for e in w.events if e[0] == "lost"]
        probes = sum(1 for c in w.conns for (d, t) in c.written if d == b"0;255;3;0;2;\n")
        return {"now": int(round(w.now / UNIT)), "made": len(made), "lost": len(lost), "lostexc": [1 if e[2] else 0 for e in lost],
                "attempts": [int(round(t / UNIT)) for t in w.attempts], "nconn": len([c for c in w.conns if not c.orphan]), "live": len(self.live()), "orphans": w.orphans,
                "probes": probes, "after_stop": len(w.after_stop), "threads": 0, "quiescent": self.ok}

    def shutdown(self):
        try:
            for t in asyncio.all_tasks(self.w.loop):
                t.cancel()
            self._drain(5)
        except Exception:  # pylint: disable=broad-except
            pass
        self.w.loop.close()
