"""C01 - the message pump cannot be crashed or tricked by input."""
import random
import threading
import time

from . import common, gwcheck, gwfocus, gwgen
from .gwdrv import RecTransport

PID = "C01"
PROJ = ["exc", "out", "cb", "tree", "trans", "ota", "jobs"]
PROPS = ["NoEffectOnBad", "CallbackOnlyFromLines"]
INVS = ["Disciplines", "AcceptedImpliesDeliverable", "HeldAndQueuedValid"]


def _poll_thread_probe(rep, n_hist, seed):
    """Real SyncTasks._poll_queue thread: after a hostile history a probe must still be answered."""
    import mysensors
    dead = 0
    for i in range(n_hist):
        rng = random.Random(seed * 7919 + i)
        ver = rng.choice(gwcheck.ALL_VERS)
        tr = RecTransport()
        gw = mysensors.BaseSyncGateway(tr, protocol_version=ver, event_callback=lambda m: 1 / 0 if rng.random() < 0.2 else None)
        th = threading.Thread(target=gw.tasks._poll_queue, daemon=True)
        th.start()
        gen = gwgen.Gen(rng, ver)
        lines = []
        for _ in range(120):
            ln = gen.line() + "\n"
            lines.append(ln)
            gw.tasks.add_job(gw.logic, ln)
            if rng.random() < 0.1:
                try:
                    gw.set_child_value(gen.n(), gen.c(), gen.t(), rng.choice(gwgen.HARSH_VALUES))
                except Exception:  # refusals are fine (C01 is about calls that RETURN normally)
                    pass
        probe = "77;255;3;0;6;0\n"
        # wait for the real poll thread by progress, not by wall clock (a loaded machine must not look like a dead pump):
        # give up only when the queue length has not changed for 10 s
        last, since = len(gw.tasks.queue), time.time()
        while gw.tasks.queue and th.is_alive() and time.time() - since < 10:
            if len(gw.tasks.queue) != last:
                last, since = len(gw.tasks.queue), time.time()
            time.sleep(0.01)
        before = len(tr.log)
        gw.tasks.add_job(gw.logic, probe)
        answered = False
        deadline = time.time() + 20
        while time.time() < deadline:
            if any(x.startswith("77;255;3;0;6;") for x in tr.log[before:]):
                answered = True
                break
            if not th.is_alive():
                break
            time.sleep(0.005)
        alive = th.is_alive()
        gw.tasks._stop_event.set()
        th.join(1)
        rep.cov["evaluations"] += 1
        if not (alive and answered):
            dead += 1
            rep.violation({"kind": "poll-thread-dead", "version": ver, "alive": alive, "answered": answered},
                          {"version": ver, "lines": lines})
        else:
            rep.nontrivial(("poll", i))
    rep.cov["poll_thread_probes"] = n_hist


def run(tier):
    focus = [("tree", gwfocus.tree, ["1.4", "2.2"], ["async", "sync"], False),
             ("sleepver", gwfocus.sleep_versions, ["2.0", "2.2"], ["async"], False),
             ("ota", gwfocus.ota, ["2.0"], ["sync"], False)]
    chk = gwcheck.GwCheck(PID, tier, PROJ, focus=focus, mc_props=PROPS, mc_invs=INVS, mc_depth_quick=4, mc_depth_thorough=6,
                          profile={"garbage": 12, "invalid": 14, "fwcfg": 8, "fwreq": 8, "otherint": 6, "otherstream": 3},
                          gen_opts=lambda i: {"prefix": "mix", "harsh": True, "mqtt": i % 3 == 0},
                          nontrivial=lambda ev: ev["a"] in ("Recv", "Pump", "SetChild"))
    chk.model_check()
    traces = chk.collect_traces()
    chk.validate(traces)
    _poll_thread_probe(chk.rep, 30 if tier == "quick" else 600, common.seed())
    chk.rep.cov["rule"] = ("random hostile histories (garbage, truncated frames, invalid and malformed stream payloads, harsh "
                           "set_child_value arguments; serial-style and MQTT gateways; raising callbacks) + TLC behaviour replay; "
                           "every step validated by TLC: rejected lines leave every component unchanged, nothing raises, the pump "
                           "stays alive; plus real _poll_queue thread probes. Non-trivial = any line / pump / set_child step.")
    return chk.rep.finish()


def replay(path):
    return gwcheck.replay_file(path, PROJ)
