"""Independent lexer for payload text -> descriptor consumed by spec/Valid.tla.

Never imports the library.  It answers LEXICAL questions only (is the text an
integer / float / hex string / a version number, how does its value compare with a
few constants); every range, word list, length and table lives in Valid.tla.
"""
import binascii
import re

WORDS = {"0", "1", "M", "I", "Off", "HeatOn", "CoolOn", "AutoChangeOver", "Min", "Normal", "Max", "Auto"}
_SAFE = re.compile(r"^[A-Za-z0-9 .,_+\-:/=]{0,40}$")
_VER = re.compile(r"^(\d{1,4})\.(\d{1,4})(?:\.(\d{1,4}))?$")
FLOORS = [((2, 2), "2.2"), ((2, 1), "2.1"), ((2, 0), "2.0"), ((1, 5), "1.5"), ((1, 4), "1.4")]
CLAMP = 100000


class Interner:
    """Text -> token usable as a TLA+ string; a bijection within one trace file."""

    def __init__(self):
        self.tab = {}
        self.rev = {}

    def tok(self, text):
        if not isinstance(text, str):
            text = "\x00" + repr(text)
        if text in self.tab:
            return self.tab[text]
        if _SAFE.match(text) and not text.startswith("~") and "\x00" not in text:
            t = text
        else:
            t = "~%d" % len(self.rev)
        self.tab[text] = t
        self.rev[t] = text
        return t


def _sign(x):
    return (x > 0) - (x < 0)


def version_tuple(text):
    m = _VER.match(text)
    if not m:
        return None
    return tuple(int(g) for g in m.groups() if g is not None)


def version_floor(text):
    """Highest supported version not above text under numeric comparison ('1.4' when lower/invalid)."""
    t = version_tuple(text) if isinstance(text, str) else None
    if t is None:
        return "1.4"
    for tup, name in FLOORS:
        if t[:2] >= tup:
            return name
    return "1.4"


_VERSIONISH_1 = re.compile(r"^\s*v?\d+(\.\d+)*\.?\s*$")
_VERSIONISH_2 = re.compile(r"^\s*v?\d+(\.\d+)*[-+a-zA-Z].*$", re.S)


def version_clear(text):
    """True when the version rule's verdict for text is beyond dispute (see DESIGN C18)."""
    if not isinstance(text, str):
        return True
    if version_tuple(text) is not None:
        return True
    # clearly not a version: no digit at all, or empty ...
    if not any(ch.isdigit() for ch in text):
        return True
    # ... or digits in a shape nobody would read as a version: neither digits-and-dots (possibly with a leading v, a
    # trailing dot, blanks around - whose verdict is left open) nor a version followed by a letter / sign (1.4a, 2.0-beta)
    return not _VERSIONISH_1.match(text) and not _VERSIONISH_2.match(text)


def describe(text, interner):
    """Descriptor of a payload string."""
    d = {"tok": interner.tok(text), "e": text == "", "w": text if text in WORDS else "",
         "int": False, "iv": 0, "ic": "", "fl": False, "c0": 0, "c100": 0, "cm1": 0, "c1": 0,
         "hex": False, "len": min(len(text), 1000), "gn": 0, "gf": False, "vok": False, "vfl": "1.4",
         "clear": True, "carr": not any(ch in text for ch in ";\n\r")}
    try:
        v = int(text)
        d["int"] = True
        d["iv"] = max(-CLAMP, min(CLAMP, v))
        d["ic"] = interner.tok(str(v))
    except ValueError:
        pass
    try:
        f = float(text)
        if f != f:                       # nan: comparisons are not meaningful
            d["clear"] = False
        d["fl"] = True
        d["c0"], d["c100"], d["cm1"], d["c1"] = _sign(f - 0.0), _sign(f - 100.0), _sign(f + 1.0), _sign(f - 1.0)
        if f in (float("inf"), float("-inf")):
            d["c0"] = d["c100"] = d["cm1"] = d["c1"] = 1 if f > 0 else -1
    except ValueError:
        pass
    try:
        binascii.unhexlify(text)
        d["hex"] = True
    except (binascii.Error, ValueError, TypeError):
        pass
    parts = text.split(",")
    d["gn"] = min(len(parts), 9)
    gf = True
    for part in parts:
        try:
            float(part)
        except ValueError:
            gf = False
    d["gf"] = gf
    d["fw"] = fw_request(text)
    t = version_tuple(text)
    d["vok"] = t is not None and t[:2] >= (1, 4)
    d["vfl"] = version_floor(text) if d["vok"] else "1.4"
    if not version_clear(text):
        d["vclear"] = False
    else:
        d["vclear"] = True
    return d


def fw_request(text):
    """Lexical view of a firmware (config) request payload: little-endian 16-bit words in hex."""
    r = {"wf5": False, "wf3": False, "t": 0, "v": 0, "blk": 0}
    try:
        raw = binascii.unhexlify(text)
    except (binascii.Error, ValueError, TypeError):
        return r
    words = [raw[i] | (raw[i + 1] << 8) for i in range(0, len(raw) - 1, 2)]
    if len(raw) == 10:
        r["wf5"] = True
    if len(raw) == 6:
        r["wf3"] = True
    if len(words) >= 2:
        r["t"], r["v"] = words[0], words[1]
    if len(words) >= 3:
        r["blk"] = words[2]
    return r


def clamp_int(v):
    return max(-CLAMP, min(CLAMP, v))
