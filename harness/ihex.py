"""Independent Intel-HEX encoder (the library's loader is the code under test)."""


def _rec(addr, rtype, data):
    body = bytes([len(data), (addr >> 8) & 255, addr & 255, rtype]) + bytes(data)
    chk = (-sum(body)) & 255
    return ":" + (body + bytes([chk])).hex().upper()


def encode(image, reclen=16, start=0):
    """Contiguous image starting at address `start` (< 64 KiB segments via extended linear address)."""
    lines = []
    upper = None
    pos = 0
    while pos < len(image):
        addr = start + pos
        if (addr >> 16) != upper:
            upper = addr >> 16
            if upper or start >= 0x10000:
                lines.append(_rec(0, 4, [(upper >> 8) & 255, upper & 255]))
        n = min(reclen, len(image) - pos, 0x10000 - (addr & 0xFFFF))
        lines.append(_rec(addr & 0xFFFF, 0, image[pos:pos + n]))
        pos += n
    lines.append(":00000001FF")
    return "\n".join(lines) + "\n"


def write(path, image, reclen=16, start=0):
    with open(path, "w", encoding="utf-8") as fh:
        fh.write(encode(image, reclen, start))
