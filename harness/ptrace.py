"""Batch validation of persistence traces with TLC (spec/PersistTrace.tla)."""
import json
import os
import re
from concurrent.futures import ThreadPoolExecutor

from . import common, tlc
from .gwtrace import _parse_rejected


def _cfg(path, diag):
    with open(path, "w", encoding="utf-8") as fh:
        fh.write("SPECIFICATION TSpec\nCONSTANTS MaxVersion = 1000\n MaxFaults = 1000\n SilentRace = TRUE\n ClaimFirst = TRUE\n"
                 f" Diag = {'TRUE' if diag else 'FALSE'}\n"
                 "CONSTRAINT Track\nPOSTCONDITION Post\nCHECK_DEADLOCK FALSE\n"
                 "INVARIANT AtomicReplace\nINVARIANT LoadWhole\nINVARIANT SaveCommitsCurrentSnapshot\n")


def validate(traces, wd, name="p", shards=None, timeout=1800):
    os.makedirs(wd, exist_ok=True)
    n = shards or min(common.ncpu(), max(1, len(traces) // 50))
    jobs = []
    for s in range(n):
        ts = traces[s::n]
        if not ts:
            continue
        path = os.path.join(wd, f"{name}{s}.ndjson")
        with open(path, "w", encoding="utf-8") as fh:
            for t in ts:
                fh.write(json.dumps({"ev": t["ev"]}) + "\n")
        cfg = os.path.join(wd, f"{name}{s}.cfg")
        _cfg(cfg, False)
        jobs.append((s, ts, path, cfg))
    stats = {"states": 0, "generated": 0}

    def run_one(job):
        s, ts, path, cfg = job
        r = tlc.run("PersistTrace", cfg, workdir=os.path.join(wd, f"{name}run{s}"), workers=1, deque=True,
                    env={"TRACE_FILE": path}, timeout=timeout)
        if r.violation and r.violation.startswith("invariant"):
            raise tlc.MachineryError(f"PersistTrace: spec invariant violated while following a trace\n{r.trace_text[:3000]}")
        tlc.must_ok(r, f"PersistTrace shard {s}")
        rej = _parse_rejected(r.out)
        if rej is None:
            raise tlc.MachineryError(f"PersistTrace shard {s}: no REJECTED line\n{r.out[-2000:]}")
        out = []
        for tidx, upto in sorted(rej.items())[:8]:
            tr = ts[tidx - 1]
            dpath = os.path.join(wd, f"{name}{s}_diag{tidx}.ndjson")
            with open(dpath, "w", encoding="utf-8") as fh:
                fh.write(json.dumps({"ev": tr["ev"]}) + "\n")
            dcfg = os.path.join(wd, f"{name}{s}_diag{tidx}.cfg")
            _cfg(dcfg, True)
            names = ["(not diagnosed)"]
            try:
                d = tlc.run("PersistTrace", dcfg, workdir=os.path.join(wd, f"{name}d{s}_{tidx}"), workers=1, deque=True,
                            env={"TRACE_FILE": dpath}, timeout=150)
                names = sorted({m.group(2) for m in re.finditer(r'<<"CLAUSE", \d+, (\d+), "(\w+)">>', d.out)
                                if int(m.group(1)) == upto}) or ["action-not-enabled"]
            except tlc.MachineryError:
                pass            # the diagnosis is a hint; the verdict is the rejection
            out.append({"trace": tr, "index": upto, "clauses": names})
        for tidx, upto in sorted(rej.items())[8:]:
            out.append({"trace": ts[tidx - 1], "index": upto, "clauses": ["(not diagnosed)"]})
        return r, out
    rejections = []
    with ThreadPoolExecutor(len(jobs) or 1) as ex:
        for r, out in ex.map(run_one, jobs):
            stats["states"] += r.distinct
            stats["generated"] += r.generated
            rejections.extend(out)
    return rejections, stats
