"""C02 - wire codec is a faithful, canonical round trip.

M: TLC checks the codec laws (canonical fixed point, encode/decode round trip, copy
   exactness) on the character-level specification spec/Wire.tla over the bounded case
   analysis of spec/WireMC.tla.
B: the same case analysis (plus random symbol strings) is concretised to real characters
   (several concrete characters per symbol class, seeded), executed against
   mysensors.message.Message (decode, encode, copy) and every observed result is
   validated by TLC against the Wire.tla operators (spec/WireTrace.tla).
"""
import itertools
import json
import os
import random
from concurrent.futures import ThreadPoolExecutor

from . import common, tlc
from .c03 import _parse_bad

PID = "C02"

HF = [["1"], ["0"], ["2", "5"], ["-", "1"], ["+", "5"], ["b", "1"], ["1", "b"], ["1", "_", "0"], ["u"], [],
      ["a"], ["1", "a"], ["_", "1"], ["1", "_"], ["-"], ["1", "b", "1"], ["2", "5", "6"], ["0", "0", "7"],
      ["9", "9", "9", "9", "9", "9", "9", "9", "9"], ["-", "0"], ["+", "_", "1"], ["1", "_", "_", "0"], ["b"],
      ["u", "0"], ["-", "b", "1"], ["g", "1"], ["1", "g"]]
PL = [[], ["a"], ["b", "a"], ["a", "b"], ["1"], ["a", "r", "a"], ["a", "b", "a"], ["u", "_"], ["a", "a", "a"],
      ["a", "c"], ["a", "a"], ["1", "a"], ["a", "c", "a", "c"], ["c", "a", "1", "c"],
      ["-", "1"], ["1", "s", "2"][:1]]
TR = [[], ["n"], ["r", "n"], ["b", "n"], ["r"], ["n", "n"], ["b", "b", "r", "n"], ["g", "n"], ["g"]]
BLANKS = [" ", "\t", "\x0b", "\x0c", "\x85", "\xa0", " ", " ", " ",
          " ", " ", " ", "　"]
GBLANKS = ["\x1c", "\x1d", "\x1e", "\x1f"]
UDIG = ["٣", "３", "३", "\U0001d7d1", "๓"]
FORMATISH = ["%", "{", "}", "$", "#", "*", "?", "[", "(", "&", "|", "<", ">", "=", "`", "@", "!", "^", ",", ":", "/", "d", "s"]
OTHER = FORMATISH + ["a", "\xe9", "\U0001f600", "\x00", ".", "x", "Z", "~", "漢", "e", "−", "'", "\"", "\\", "́",
         "﻿", "{"]
WORDS = ["None", "null", "True", "False", "nan", "NaN", "inf", "Infinity", "undefined", "NULL"]
IVALS = [-1, 0, 1, 2, 3, 4, 5, 255, 256, 1000, 2147483647, -2147483647, 17, 254]


class Conc:
    """One concretisation: symbol class -> one real character (so the inverse is a function)."""

    def __init__(self, rng):
        a = rng.choice(OTHER)
        r = rng.random()
        if r < 0.3:
            a, c = "%", rng.choice(["d", "s", "(", "r", "x", "{"])
        elif r < 0.45:
            # the class "other text" as a whole word that means something to Python / JSON (still just text on the wire)
            a = rng.choice(WORDS)
            c = rng.choice([x for x in FORMATISH if not x.isalpha()])
        else:
            c = rng.choice([x for x in OTHER if x != a])
        self.m = {"b": rng.choice(BLANKS), "u": rng.choice(UDIG), "a": a, "c": c, "g": rng.choice(GBLANKS),
                  "n": "\n", "r": "\r", "s": ";", "-": "-", "+": "+", "_": "_"}
        for d in "0123456789":
            self.m[d] = d
        self.inv = {v: k for k, v in self.m.items()}

    def text(self, syms):
        return "".join(self.m[s] for s in syms)

    def syms(self, text):
        w = self.m["a"]
        if len(w) > 1:
            text = text.replace(w, "\ue000")          # the word stands for ONE symbol of class a
            return ["a" if ch == "\ue000" else self.inv.get(ch, "?") for ch in text]
        return [self.inv.get(ch, "?") for ch in text]


def join(fields):
    out = []
    for i, f in enumerate(fields):
        if i:
            out.append("s")
        out.extend(f)
    return out


def case_lines(tier, rng):
    """The case analysis of WireMC.InitLine (mirrored), plus random symbol strings."""
    cases = []
    for nf in range(1, 9):
        for i, j in itertools.combinations_with_replacement(range(1, 8), 2):
            if i >= nf and not (i == 1 and j == 1):
                continue
            for fi in HF:
                for fj in HF:
                    if i == j and fi is not fj:
                        continue
                    cases.append((nf, i, j, fi, fj))
    if tier == "quick":
        cases = rng.sample(cases, min(len(cases), 9000))
    for (nf, i, j, fi, fj) in cases:
        for pl in (PL if tier == "thorough" else rng.sample(PL, 3)):
            for tr in (TR if tier == "thorough" else rng.sample(TR, 2)):
                fields = [pl if k == nf else fi if k == i else fj if k == j else ["1"] for k in range(1, nf + 1)]
                yield join(fields) + tr
    alphabet = ["0", "1", "2", "5", "9", "u", "-", "+", "_", "s", "s", "s", "b", "n", "r", "a", "c", "g"]
    for _ in range(20000 if tier == "quick" else 200000):
        n = rng.randint(0, 18)
        if rng.random() < 0.5:
            # near-valid: 5 int-ish fields + payload, then mutate
            fields = [rng.choice(HF) for _ in range(5)] + [rng.choice(PL)]
            line = join(fields) + rng.choice(TR)
            for _ in range(rng.randint(0, 2)):
                if line:
                    line[rng.randrange(len(line))] = rng.choice(alphabet)
            yield line
        else:
            yield [rng.choice(alphabet) for _ in range(n)]


def build_records(tier, rng):
    from mysensors.message import Message
    from mysensors import const_22
    D, E, C = [], [], []
    texts = []
    # the codec is the same whether or not a message knows its gateway (Gateway.logic decodes with the gateway attached,
    # copy() hands it on): half of all messages get one
    import mysensors
    gws = [mysensors.Gateway(protocol_version=v) for v in ("1.4", "2.0", "2.2")]

    def some_gw():
        return rng.choice(gws) if rng.random() < 0.5 else None
    for line in case_lines(tier, rng):
        # TLC integers are 32 bit: fields with more than 9 digits are not representable in the specification
        if any(sum(1 for ch in f if ch in "0123456789u") > 9 for f in "".join(x if x != "s" else ";" for x in line).split(";")):
            continue
        conc = Conc(rng)
        text = conc.text(line)
        try:
            if rng.random() < 0.5:
                m = Message(text, some_gw())
            else:
                m = Message(None, some_gw())       # the public decode() called on an existing message object
                m.decode(text)
            h = [m.node_id, m.child_id, m.type, m.ack, m.sub_type]
            if any(abs(x) > 2 ** 31 - 1 for x in h):
                continue
            enc = m.encode()
            D.append([line, 1, h, conc.syms(m.payload), conc.syms(enc) if isinstance(enc, str) else ["?"]])
        except ValueError:
            D.append([line, 0, [], [], []])
        except Exception:  # pylint: disable=broad-except
            D.append([line, 2, [], [], []])
        if len(texts) < 5:
            texts.append(text)
    enums = [const_22.MessageType.set, const_22.Internal.I_PRE_SLEEP_NOTIFICATION, const_22.SetReq.V_POWER_FACTOR,
             const_22.Presentation.S_WATER_QUALITY, const_22.Stream.ST_IMAGE, True, False]
    n_e = 3000 if tier == "quick" else 40000
    for _ in range(n_e):
        conc = Conc(rng)
        hv = [rng.choice(IVALS) for _ in range(5)]
        objs = list(hv)
        for k in range(5):
            r = rng.random()
            if r < 0.15:
                e = rng.choice(enums)
                objs[k], hv[k] = e, int(e)
            elif r < 0.25:
                objs[k] = str(hv[k])          # int() accepts the decimal spelling too
        pl = rng.choice(PL + [[rng.choice(["a", "c", "b", "1", "u", "_", "-", "r"]) for _ in range(rng.randint(0, 6))]])
        ptxt = conc.text(pl)
        m = Message(None, some_gw(), node_id=objs[0], child_id=objs[1], type=objs[2], ack=objs[3], sub_type=objs[4], payload=ptxt)
        try:
            enc = m.encode()
            ok = 1 if isinstance(enc, str) else 0
            rd_ok, rd_h, rd_p = 0, [], []
            if ok:
                try:
                    m2 = Message(enc, some_gw())
                    rd_ok, rd_h, rd_p = 1, [m2.node_id, m2.child_id, m2.type, m2.ack, m2.sub_type], conc.syms(m2.payload)
                except ValueError:
                    rd_ok = 0
            E.append([hv, pl, ok, conc.syms(enc) if ok else [], rd_ok, rd_h, rd_p])
        except Exception:  # pylint: disable=broad-except
            E.append([hv, pl, 2, [], 0, [], []])
    n_c = 3000 if tier == "quick" else 40000
    names = ["node_id", "child_id", "type", "ack", "sub_type", "payload"]
    carri = [p for p in PL if "s" not in p and "n" not in p and not (p and p[-1] in ("b", "r", "n"))]
    for k in range(n_c):
        conc = Conc(rng)
        hv = [rng.choice(IVALS) for _ in range(5)]
        pl = rng.choice(carri)
        m = Message(None, some_gw(), node_id=hv[0], child_id=hv[1], type=hv[2], ack=hv[3], sub_type=hv[4], payload=conc.text(pl))
        subset = [i for i in range(1, 7) if (k >> (i - 1)) & 1] if k < 64 else [i for i in range(1, 7) if rng.random() < 0.4]
        vals, kw = [], {}
        for i in subset:
            if i == 6:
                q = rng.choice(PL)
                vals.append(q)
                kw["payload"] = conc.text(q)
            else:
                x = rng.choice(IVALS)
                vals.append(x)
                kw[names[i - 1]] = x
        try:
            c = m.copy(**kw)
            if c is m:
                raise RuntimeError("copy() returned the message itself")      # a copy is a new message (recorded as a failure)
            C.append([hv, pl, subset, vals, 1, [c.node_id, c.child_id, c.type, c.ack, c.sub_type],
                      conc.syms(c.payload) if isinstance(c.payload, str) else ["?"]])
        except Exception:  # pylint: disable=broad-except
            C.append([hv, pl, subset, vals, 0, [], []])
    return D, E, C, texts


def run(tier):
    rep = common.Report(PID, tier)
    wd = common.workdir(PID)
    rng = random.Random(common.seed() + 2)
    n = common.ncpu()

    # --- M: model-check the laws (runs concurrently with the implementation side)
    ex = ThreadPoolExecutor(4)
    cfg = "WireMC_quick.cfg" if tier == "quick" else "WireMC.cfg"
    fut_mc = ex.submit(tlc.run, "WireMC", os.path.join(common.SPEC, cfg), workdir=os.path.join(wd, "mc"),
                       workers=max(2, n // 2), timeout=1800)
    fut_v = [ex.submit(tlc.run, "WireMC", os.path.join(common.SPEC, f"WireMC_vac_{nm}.cfg"),
                       workdir=os.path.join(wd, "vac" + nm), workers=2, timeout=900)
             for nm in ("SomeLineDecodes", "SomeLineFails")]

    # --- B: execute the implementation
    D, E, C, texts = build_records(tier, rng)
    nsh = n
    paths = []
    for s in range(nsh):
        path = os.path.join(wd, f"shard{s}.json")
        with open(path, "w", encoding="utf-8") as fh:
            json.dump({"D": D[s::nsh], "E": E[s::nsh], "C": C[s::nsh]}, fh)
        paths.append(path)

    def val(args):
        s, path = args
        r = tlc.run("WireTrace", os.path.join(common.SPEC, "WireTrace.cfg"), workdir=os.path.join(wd, f"t{s}"),
                    workers=1, env={"TRACE_FILE": path}, timeout=1800)
        tlc.must_ok(r, f"WireTrace shard {s}")
        return s, _parse_bad(r.out, "BADD"), _parse_bad(r.out, "BADE"), _parse_bad(r.out, "BADC")
    with ThreadPoolExecutor(max(2, n // 2)) as ex2:
        results = list(ex2.map(val, list(enumerate(paths))))
    for s, bd, be, bc in results:
        for i in bd:
            r = D[s::nsh][i - 1]
            rep.violation({"kind": "decode-mismatch", "impl_ok": r[1], "line": "".join(r[0])},
                          {"line_symbols": r[0], "impl": r[1:]})
        for i in be:
            r = E[s::nsh][i - 1]
            rep.violation({"kind": "encode-mismatch", "impl_ok": r[2]}, {"header": r[0], "payload_symbols": r[1], "impl": r[2:]})
        for i in bc:
            r = C[s::nsh][i - 1]
            rep.violation({"kind": "copy-mismatch", "replaced": r[2]}, {"header": r[0], "payload_symbols": r[1], "repl": r[2:4], "impl": r[4:]})

    res = fut_mc.result()
    if res.violation:
        raise tlc.MachineryError("a codec law fails on the SPECIFICATION (Wire.tla self-check): " + res.trace_text[:3000])
    tlc.must_ok(res, "WireMC")
    rep.add_tlc("WireMC", res)
    for f, nm in zip(fut_v, ("SomeLineDecodes", "SomeLineFails")):
        r = f.result()
        if r.violation is None:
            raise tlc.MachineryError(f"vacuity: witness {nm} not reachable in WireMC")
    rep.cov["traces_validated_against_impl"] = len(D) + len(E) + len(C)
    rep.cov["evaluations"] = len(D) + len(E) + len(C)
    for r in D:
        if r[1] == 1:
            rep.nontrivial(("D", tuple(r[0])))
    for r in E:
        rep.nontrivial(("E", tuple(r[0]), tuple(r[1])))
    for r in C:
        rep.nontrivial(("C", tuple(r[0]), tuple(r[1]), tuple(r[2])))
    rep.cov["rule"] = ("lines: 1..8 fields, two varied header positions over 25 field spellings x payload x trailer "
                       "(thorough: all; quick: seeded sample) + random symbol strings, each concretised with a random "
                       "character per symbol class; encode: 5 ints from boundary values / IntEnum members / decimal "
                       "strings x payloads; copy: all 64 subsets of replaced fields then random subsets. Non-trivial = "
                       "line that decodes / every encode and copy case; distinct by symbol sequence.")
    for t in texts[:3]:
        rep.sample({"concrete_line": t})
    rep.sample({"decode_record": D[0]})
    rep.sample({"copy_record": C[5] if len(C) > 5 else None})
    rep.assumptions += ["Python's int()/str.rstrip semantics are summarised by Wire.tla's ParseInt/RStrip over symbol classes; "
                        "each class is represented by the listed characters (not all of Unicode)",
                        "header integers are kept below 2^31 (TLC integers)"]
    return rep.finish()


def replay(path):
    with open(path, encoding="utf-8") as fh:
        print(json.dumps(json.load(fh), indent=1)[:3000])
    return 0
