"""C03 - inbound validation conforms to the per-version serial API.

M: TLC checks the table theorems of spec/Valid.tla, enumerates the header space, and
   checks the hand-labelled corpus against RuleOk.
B: the complete header space x boundary corpus is executed against the library
   (Message(line).validate, Gateway.logic dispatch, ChildSensor.validate); the recorded
   verdicts are validated by TLC against Valid.tla (spec/ValidTrace.tla), in shards.
"""
import json
import re
import multiprocessing as mp
import os
import random
from concurrent.futures import ThreadPoolExecutor

from . import common, tlc
from .payload import Interner, describe

PID = "C03"
VERS = ["1.4", "1.5", "2.0", "2.1", "2.2"]
IDCLS = [-1, 0, 1, 254, 255, 256]
ACKS = [-1, 0, 1, 2]
MAXSUB = {  # only used to bound the ENUMERATION (two past the largest defined); verdicts come from Valid.tla
    0: 39, 1: 56, 2: 56, 3: 33, 4: 5}


def load_corpus():
    with open(os.path.join(common.VERIF, "corpus", "payloads.json"), encoding="utf-8") as fh:
        d = json.load(fh)
    return {k: v for k, v in d.items() if not k.startswith("_")}


def build_payload_table(corpus):
    interner = Interner()
    texts, index = [], {}
    for rule, items in corpus.items():
        for text, _ in items:
            if text not in index:
                index[text] = len(texts) + 1
                texts.append(text)
    return texts, index, [describe(t, interner) for t in texts]


def headers():
    for cmd in range(-1, 6):
        subs = range(-1, MAXSUB[cmd] + 3) if cmd in MAXSUB else (-1, 0, 1)
        for sub in subs:
            for n in IDCLS:
                for c in IDCLS:
                    for ack in ACKS:
                        yield (n, c, cmd, ack, sub)


# ---------------------------------------------------------------- implementation side
_G = {}


def _init_worker():
    import logging
    logging.disable(logging.CRITICAL)
    import voluptuous as vol
    from mysensors import Gateway, Message
    from mysensors.sensor import ChildSensor
    _G["vol"] = vol
    _G["Message"] = Message
    _G["ChildSensor"] = ChildSensor
    gws = {}
    for v in VERS:
        gw = Gateway(protocol_version=v)
        flag = []

        def spy(msg, flag=flag):
            flag.append(1)
            return None
        gw.handlers = {k: spy for k in gw.handlers}
        gws[v] = (gw, flag)
    _G["gws"] = gws


def _impl_accepts(v, hdr, text, use_logic):
    line = ";".join(str(x) for x in hdr) + ";" + text + "\n"
    vol = _G["vol"]
    if use_logic:
        gw, flag = _G["gws"][v]
        del flag[:]
        try:
            gw.logic(line)
        except Exception:  # pylint: disable=broad-except
            return 2
        return 1 if flag else 0
    try:
        msg = _G["Message"](line)
    except ValueError:
        return 3
    try:
        msg.validate(v)
        return 1
    except vol.Invalid:
        return 0
    except Exception:  # pylint: disable=broad-except
        return 2


def _work(job):
    shard, path, P, recs, kids, texts = job
    R = []
    for (vi, hdr, pi, use_logic) in recs:
        acc = _impl_accepts(VERS[vi - 1], hdr, texts[pi - 1], use_logic)
        R.append([vi] + list(hdr) + [pi, acc])
    K = []
    vol = _G["vol"]
    for (vi, s, t, pi) in kids:
        try:
            _G["ChildSensor"](0, s).validate(VERS[vi - 1], {t: texts[pi - 1]})
            out = 0
        except vol.Invalid:
            out = 1
        except Exception:  # pylint: disable=broad-except
            out = 2
        K.append([vi, s, t, pi, out])
    with open(path, "w", encoding="utf-8") as fh:
        json.dump({"P": P, "R": R, "K": K}, fh)
    return shard, len(R), len(K)


def _parse_bad(out, tag):
    m = re.search(r'<<\s*"%s",' % tag, out)
    i = m.start() if m else -1
    if i < 0:
        raise tlc.MachineryError(f"no {tag} line in TLC output:\n{out[-3000:]}")
    j = out.find(">>", i)
    body = out[i:j]
    k = body.find("{")
    inner = body[k + 1:body.rfind("}")]
    return [int(x) for x in inner.replace("\n", " ").split(",") if x.strip()]


def run(tier):
    rep = common.Report(PID, tier)
    wd = common.workdir(PID)
    rng = random.Random(common.seed())
    corpus = load_corpus()
    texts, index, P = build_payload_table(corpus)

    # ---- M: table theorems + header enumeration + corpus self-test
    cfile = os.path.join(wd, "corpus.json")
    lab = [[rule, P[index[t] - 1], 1 if exp else 0] for rule, items in corpus.items() for t, exp in items]
    with open(cfile, "w", encoding="utf-8") as fh:
        json.dump(lab, fh)
    res = tlc.run("ValidMC", os.path.join(common.SPEC, "ValidMC.cfg"), workdir=wd,
                  env={"CORPUS_FILE": cfile}, timeout=600)
    if res.violation and res.violation != "assumption":
        rep.violation({"kind": "spec-invariant", "what": res.violation}, {"tlc": res.trace_text[:4000]})
    elif res.violation == "assumption":
        raise tlc.MachineryError("a table theorem of Valid.tla is false (spec self-check):\n" + res.out[-3000:])
    tlc.must_ok(res, "ValidMC")
    if _parse_bad(res.out, "BADCORPUS"):
        raise tlc.MachineryError("hand-labelled corpus disagrees with payload.py + Valid.tla RuleOk: "
                                 f"{_parse_bad(res.out, 'BADCORPUS')}")
    rep.add_tlc("ValidMC", res)

    # ---- B: enumerate cases
    acc_of = {r: [index[t] for t, e in items if e] for r, items in corpus.items()}
    rej_of = {r: [index[t] for t, e in items if not e] for r, items in corpus.items()}
    all_idx = list(range(1, len(texts) + 1))
    recs = []
    hs = list(headers())
    # version strings outside major.minor[.patch] / clearly-not-a-version are outside the property's
    # quantifier (C18) and their verdict is not fixed by it: never offered to node presentations.
    vclear_idx = [i for i in all_idx if P[i - 1]["vclear"]]

    def cmd_is_version_rule(hdr):
        return hdr[2] == 0 and hdr[4] in (17, 18)

    for vi in range(1, 6):
        for hdr in hs:
            inrange = hdr[0] == 1 and hdr[1] in (0, 255) and hdr[3] == 0
            odd = sum([hdr[0] != 1, hdr[1] not in (0, 255), hdr[3] != 0])
            if cmd_is_version_rule(hdr):
                pool = vclear_idx
            else:
                pool = all_idx
            if inrange or (tier == "thorough" and odd <= 1):
                pis = pool
            else:
                k = 8 if tier == "thorough" else 1
                pis = rng.sample(pool, k) + ([index[""]] if tier == "thorough" else [])
            for k, pi in enumerate(pis):
                recs.append((vi, hdr, pi, (len(recs) % 4) == 0))
    kids = []
    for vi in range(1, 6):
        for s in range(0, MAXSUB[0] + 1):
            for t in range(-1, MAXSUB[1] + 3):
                pis = all_idx if tier == "thorough" else rng.sample(all_idx, 6) + [index["0"], index["ff0000"], index["50"]]
                for pi in pis:
                    kids.append((vi, s, t, pi))
    # versions are visited in mixed order inside one process (tables shared between versions must not be edited in place)
    rng.shuffle(kids)
    rng.shuffle(recs)
    n = common.ncpu()
    nshards = n if tier == "quick" else n * 4
    jobs = []
    for s in range(nshards):
        jobs.append((s, os.path.join(wd, f"shard{s}.json"), P, recs[s::nshards], kids[s::nshards], texts))
    with mp.get_context("fork").Pool(n, initializer=_init_worker) as pool:
        done = pool.map(_work, jobs)
    total_r = sum(d[1] for d in done)
    total_k = sum(d[2] for d in done)

    # ---- validate shards with TLC
    def val(job):
        s, path = job[0], job[1]
        r = tlc.run("ValidTrace", os.path.join(common.SPEC, "ValidTrace.cfg"),
                    workdir=os.path.join(wd, f"tlc{s}"), workers=1, env={"TRACE_FILE": path}, timeout=900)
        tlc.must_ok(r, f"ValidTrace shard {s}")
        return s, path, _parse_bad(r.out, "BADR"), _parse_bad(r.out, "BADK"), r
    with ThreadPoolExecutor(n) as ex:
        results = list(ex.map(val, jobs))
    nontriv = set()
    for s, path, badr, badk, r in results:
        with open(path, encoding="utf-8") as fh:
            d = json.load(fh)
        for rec in d["R"]:
            if rec[7] == 1:
                nontriv.add((rec[0], rec[3], rec[5], rec[6]))
        for i in badr:
            rec = d["R"][i - 1]
            v = VERS[rec[0] - 1]
            hdr = rec[1:6]
            sig = {"kind": "accept-mismatch", "version": v, "cmd": hdr[2], "sub": hdr[4],
                   "impl": {0: "rejects", 1: "accepts", 2: "raises", 3: "cannot decode"}[rec[7]],
                   "node_class": hdr[0], "child_class": hdr[1], "ack": hdr[3], "payload": texts[rec[6] - 1]}
            rep.violation(sig, {"line": ";".join(map(str, hdr)) + ";" + texts[rec[6] - 1], "version": v})
        for i in badk:
            rec = d["K"][i - 1]
            sig = {"kind": "child-schema-mismatch", "version": VERS[rec[0] - 1], "pres_type": rec[1],
                   "value_type": rec[2], "payload": texts[rec[3] - 1],
                   "impl": {0: "ok", 1: "invalid", 2: "other exception"}[rec[4]]}
            rep.violation(sig, sig)
    rep.cov["traces_validated_against_impl"] = total_r + total_k
    rep.cov["evaluations"] = total_r + total_k
    for k in nontriv:
        rep.nontrivial(k)
    rep.cov["exhaustive"] = False
    rep.cov["rule"] = ("every version x cmd -1..5 x sub -1..max+2 x node/child id class {-1,0,1,254,255,256} x ack -1..2 "
                       "crossed with the boundary corpus (thorough: full cross product; quick: full corpus on in-range "
                       "headers + 4 payloads on every other header); child schemas: every presentation type x value type "
                       "-1..max+2 x payload sample. Non-trivial = accepted by the implementation; distinct by "
                       "(version, cmd, sub, payload).")
    rep.sample({"record": "[verIdx,n,c,cmd,ack,sub,payloadIdx,implAccepts]", "example": [3, 1, 0, 1, 0, 3, index["100"], 1],
                "payload": "100"})
    rep.sample({"schema_record": "[verIdx,presType,valueType,payloadIdx,outcome]", "count": total_k})
    rep.assumptions += ["Valid.tla tables are hand-written from the serial API; lexical classes (int/float/hex) come from "
                        "harness/payload.py using Python's own int()/float()/unhexlify",
                        "nan/inf payloads and version strings outside major.minor[.patch] are not generated (verdict not fixed by the property)"]
    return rep.finish()


def replay(path):
    with open(path, encoding="utf-8") as fh:
        d = json.load(fh)
    _init_worker()
    rp = d["replay"]
    if "line" in rp:
        parts = rp["line"].split(";", 5)
        acc = _impl_accepts(rp["version"], [int(x) for x in parts[:5]], parts[5], False)
        print("implementation verdict:", acc, "for", rp)
    else:
        print(rp)
    return 0
