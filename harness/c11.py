"""C11 - persistence round trip is exact in both formats."""
import os

from . import common, gwcheck, gwfocus

PID = "C11"
PROJ = ["tree", "trans", "ota", "exc"]


def run(tier):
    wd = os.path.join(common.WORK, PID + "_snap")
    os.makedirs(wd, exist_ok=True)
    focus = []   # reachable shapes come from the random histories with sleep / OTA prefixes; model runs are in C04/C07/C10
    chk = gwcheck.GwCheck(PID, tier, PROJ, focus=focus, steps=36, n_quick=50, n_thorough=800,
                          gen_opts=lambda i: {"prefix": "mix", "snap_dir": wd, "snap_p": 0.12, "real_link": False, "surrogate": True},
                          nontrivial=lambda ev: ev["a"] == "Snapshot" and bool(ev["json"]["tree"]))
    chk.rep.cov["states"] = 0
    traces = chk.collect_traces()
    chk.validate(traces)
    import shutil
    shutil.rmtree(wd, ignore_errors=True)
    chk.rep.cov["rule"] = ("random histories (smart-sleep and OTA prefixes, Unicode / JSON-special payloads, ids 0..255, nodes without "
                           "type, children without values); at random points and at the end the LIVE state is saved as JSON and as "
                           "pickle and loaded into fresh gateways via start_persistence(); TLC checks both loaded trees equal "
                           "Persisted(nodes) of the specification state and that desired maps, hold queues and reboot flags are "
                           "reset. Non-trivial = snapshot of a non-empty network; distinct by hash of the snapshot.")
    return chk.rep.finish()


def replay(path):
    return gwcheck.replay_file(path, PROJ)
