"""Focus alphabets (concrete lines / controller calls) for bounded exhaustive TLC runs of
GatewayMC.tla.  One rich node plus restricted bystanders (asymmetry rule, DESIGN appendix B)."""


def wake(ver, n=1):
    return f"{n};255;3;0;32;500\n" if ver == "2.2" else f"{n};255;3;0;22;500\n"


def tree(ver):
    lines = ["1;255;0;0;17;2.2.0\n", "1;255;0;0;6;hello\n", "2;255;0;0;18;1.5\n",
             "1;0;0;0;16;first\n", "1;0;0;0;3;second\n", "1;1;0;0;3;\n",
             "1;0;1;0;23;43\n", "1;0;1;1;23;57\n", "1;1;1;0;2;1\n", "1;5;1;0;23;43\n", "9;0;1;0;23;43\n",
             "1;255;3;0;0;77\n", "1;255;3;0;0;101\n", "1;255;3;0;11;sketch\n", "1;255;3;0;12;1.0\n",
             "1;0;2;0;23;\n", "1;0;2;1;2;\n", "255;255;3;0;3;\n", "1;255;3;0;6;0\n", "2;255;3;0;1;\n",
             "0;255;3;0;14;Gateway startup complete.\n", "bad;bad\n", "1;0;1;0;23;101\n", "1;0;1;2;23;43\n"]
    if ver in ("2.0", "2.1", "2.2"):
        lines += ["1;255;3;0;22;500\n", "3;255;3;0;21;0\n"]
    calls = [{"a": "SetChild", "n": 1, "c": 0, "t": 23, "value": "57"},
             {"a": "SetChild", "n": 1, "c": 0, "t": 23, "value": "101"},
             {"a": "SetChild", "n": 7, "c": 0, "t": 23, "value": "1"},
             {"a": "Metric", "b": False}]
    return lines, calls


def sleep(ver):
    lines = ["1;255;0;0;17;2.2.0\n", "1;0;0;0;16;d\n", "1;1;0;0;3;d\n", "1;0;1;0;23;43\n", "1;0;1;0;23;57\n",
             "1;1;1;0;2;1\n", "1;0;2;0;23;\n", wake(ver, 1), "1;255;3;0;6;0\n", "1;255;3;0;1;\n",
             "2;255;0;0;17;2.2\n", "2;255;3;0;6;0\n", "255;255;3;0;3;\n", "1;255;3;0;3;\n", "1;5;1;0;23;1\n", "bad\n",
             "1;1;1;0;47;hello\n"]
    calls = [{"a": "SetChild", "n": 1, "c": 0, "t": 23, "value": "57"},
             # desired values that are "falsy" in Python but perfectly good payloads: switch off, clear a text
             {"a": "SetChild", "n": 1, "c": 1, "t": 2, "value": "0"},
             {"a": "SetChild", "n": 1, "c": 1, "t": 47, "value": ""},
             {"a": "SetChild", "n": 1, "c": 0, "t": 23, "value": "43"},
             {"a": "SetChild", "n": 1, "c": 1, "t": 2, "value": "1"},
             {"a": "SetChild", "n": 1, "c": 0, "t": 23, "value": "101"},
             {"a": "SetChild", "n": 2, "c": 0, "t": 2, "value": "1"}]
    return lines, calls


def sleep_versions(ver):
    """Node presents an older / unusable version; value types valid for only one side."""
    lines = ["1;255;0;0;17;1.4\n", "1;255;0;0;17;2.2.0\n", "1;255;0;0;6;nover\n",
             "1;0;0;0;14;heater\n", "1;0;1;0;22;Auto\n", "1;0;1;0;21;Off\n", "1;0;1;0;47;text\n",
             wake(ver, 1), "1;0;2;0;22;\n", "1;0;1;0;22;Max\n"]
    calls = [{"a": "SetChild", "n": 1, "c": 0, "t": 22, "value": "1"},     # valid for 1.4 only (heater switch)
             {"a": "SetChild", "n": 1, "c": 0, "t": 22, "value": "Max"},   # valid for >= 1.5 only (fan speed)
             {"a": "SetChild", "n": 1, "c": 0, "t": 47, "value": "hi"},    # type defined from 2.0 only
             {"a": "SetChild", "n": 1, "c": 0, "t": 21, "value": "HeatOn"}]
    return lines, calls


def hexw(*ws):
    return "".join("%02X%02X" % (w & 255, (w >> 8) & 255) for w in ws)


def ota(ver):
    lines = ["1;255;0;0;17;2.0\n", "2;255;0;0;17;2.0\n", "1;0;0;0;3;d\n",
             f"1;255;4;0;0;{hexw(10, 1, 80, 0x46D4, 0x0201)}\n", f"2;255;4;0;0;{hexw(10, 1, 80, 0x46D4, 0x0201)}\n",
             f"3;255;4;0;0;{hexw(10, 1, 80, 0x46D4, 0x0201)}\n",
             f"1;255;4;0;2;{hexw(10, 2, 0)}\n", f"1;255;4;0;2;{hexw(10, 2, 1)}\n", f"1;255;4;0;2;{hexw(10, 3, 0)}\n",
             f"2;255;4;1;2;{hexw(10, 2, 1)}\n",
             "1;255;4;0;0;zz\n", "1;255;4;0;2;0100\n", "1;255;4;0;2;\n", "1;255;4;0;4;sound\n",
             "1;0;1;0;2;1\n"]
    if ver in ("2.0", "2.1", "2.2"):
        lines += [wake(ver, 1)]
    calls = [{"a": "UpdateFw", "nids": [1], "f": [10, 2], "img": True},
             {"a": "UpdateFw", "nids": [1, 2, 3], "f": [10, 2], "img": False},
             {"a": "UpdateFw", "nids": [2], "f": [10, 3], "img": False},
             {"a": "UpdateFw", "nids": [2], "f": [10, 3], "img": True}]
    return lines, calls


def ids(ver):
    lines = ["255;255;3;0;3;\n", "255;7;3;1;3;\n", "1;255;0;0;17;2.0\n", "3;255;0;0;17;2.0\n", "4;255;0;0;17;2.0\n",
             "5;255;0;0;18;2.0\n", "0;255;0;0;17;2.0\n", "255;255;0;0;17;2.0\n", "1;255;3;0;0;50\n", "1;0;0;0;3;d\n",
             "255;255;3;0;3;x\n"]
    return lines, []


def falsy_scripts():
    """Histories in which a sleeping node is asked for values that are falsy in Python but ordinary payloads."""
    out = []
    for ver in ("2.0", "2.1", "2.2"):
        for fl in ("sync", "async"):
            def R(line):
                return [["recv", line, 1700000000], ["drain"]]
            ops = []
            for ln in ("1;255;0;0;17;" + ver + "\n", "1;1;0;0;36;info\n", "1;2;0;0;3;lamp\n", "1;1;1;0;47;hello\n", "1;2;1;0;2;1\n",
                       wake(ver, 1)):
                ops += R(ln)
            ops += [["set_child", 1, 1, 47, "", 0, False], ["set_child", 1, 2, 2, 0, 0, False], ["set_child", 1, 2, 2, "0", 0, False]]
            ops += R("1;1;2;0;47;\n") + R(wake(ver, 1)) + R(wake(ver, 1)) + R("1;1;1;0;47;\n") + R(wake(ver, 1))
            out.append((ver, fl, ops))
            # a pending desired value survives the presentation of a further child before the next wake-up
            ops2 = []
            for ln in ("1;255;0;0;17;" + ver + "\n", "1;0;0;0;6;temp\n", "1;0;1;0;0;43\n", wake(ver, 1)):
                ops2 += R(ln)
            ops2 += [["set_child", 1, 0, 0, "57", 0, False]]
            ops2 += R("1;5;0;0;3;late child\n") + R("1;0;2;0;0;\n") + R(wake(ver, 1)) + R("1;5;1;0;2;1\n") + R(wake(ver, 1))
            out.append((ver, fl, ops2))
    return out


def ota_scripts(hexfile):
    """Firmware scheduling around images that cannot be used."""
    out = []
    for ver in ("1.4", "2.0", "2.2"):
        for fl in ("sync", "async"):
            def R(line):
                return [["recv", line, 1700000000], ["drain"]]
            ops = R("1;255;0;0;17;" + ver + "\n") + R("2;255;0;0;17;" + ver + "\n") + R("1;0;0;0;3;lamp\n") + R("2;0;0;0;3;lamp\n")
            ops += [["update_fw", 1, 10, 2, hexfile]]
            # the same firmware id, for another node, with image files that hold nothing usable: nothing may be scheduled
            for bad in (".eof", ".zero", ".garbage", ".missing"):
                ops += [["update_fw", 2, 10, 2, hexfile + bad]]
                ops += R("2;0;1;0;2;1\n") + R("2;255;4;0;0;" + hexw(10, 1, 5, 6, 7) + "\n")
            ops += R("1;0;1;0;2;1\n") + R("1;255;4;0;0;" + hexw(10, 1, 5, 6, 7) + "\n")
            # block requests that name a zero type or version word although no such firmware is loaded
            for f in ((0, 2), (10, 0), (0, 0)):
                ops += R("1;255;4;0;2;" + hexw(f[0], f[1], 0) + "\n")
            out.append((ver, fl, ops))
    return out
