"""Batch validation of Gateway traces with TLC (spec/GatewayTrace.tla)."""
import json
import os
import re
from concurrent.futures import ThreadPoolExecutor

from . import common, tlc

STRIP = ("rawout", "text", "raisedtype", "ops")
ALL_PROJ = ["exc", "out", "cb", "tree", "trans", "ota", "jobs", "disk", "dirty"]


def _clean(obj):
    if isinstance(obj, dict):
        return {k: _clean(v) for k, v in obj.items() if k not in STRIP}
    if isinstance(obj, list):
        return [_clean(x) for x in obj]
    return obj


def _cfg(path, ver, flavour, proj, diag):
    with open(path, "w", encoding="utf-8") as fh:
        fh.write("SPECIFICATION TSpec\n")
        lenient = "lenient-id" in proj
        fh.write(f'CONSTANTS GwVer = "{ver}"\n Flavour = "{flavour}"\n MaxId = 254\n'
                 f' IdGiveUpFree = {"TRUE" if lenient else "FALSE"}\n')
        fh.write(" Proj = {" + ", ".join(f'"{p}"' for p in proj) + "}\n")
        fh.write(f" Diag = {'TRUE' if diag else 'FALSE'}\n")
        fh.write("CONSTRAINT Track\nPOSTCONDITION Post\nCHECK_DEADLOCK FALSE\nINVARIANT TypeOK\n")


_RE_REJ = re.compile(r'<<\s*"REJECTED",\s*(.*?)>>\s*$', re.S | re.M)


def _parse_rejected(out):
    i = out.rfind('"REJECTED"')
    if i < 0:
        return None
    j = out.find(">>", i)
    # value is either << >> (empty function), a tuple <<a, b>> (function with domain 1..n) or (k :> v @@ ...)
    body = out[i + len('"REJECTED"'):]
    body = body[body.find(",") + 1:]
    # cut at the closing of the outer tuple: scan brackets
    depth, end = 0, len(body)
    k = 0
    while k < len(body) - 1:
        two = body[k:k + 2]
        if two == "<<":
            depth += 1
            k += 2
            continue
        if two == ">>":
            if depth == 0:
                end = k
                break
            depth -= 1
            k += 2
            continue
        k += 1
    val = body[:end].strip()
    res = {}
    if val.startswith("<<"):
        inner = val[2:val.rfind(">>")].strip()
        if inner:
            for idx, x in enumerate(inner.split(","), 1):
                res[idx] = int(x)
        return res
    for m in re.finditer(r"(\d+)\s*:>\s*(\d+)", val):
        res[int(m.group(1))] = int(m.group(2))
    if val.startswith("[") or "|->" in val:
        for m in re.finditer(r"(\d+)\s*\|->\s*(\d+)", val):
            res[int(m.group(1))] = int(m.group(2))
    return res


def validate(traces, proj, wd, name="gw", timeout=1200):
    """traces: list of trace dicts (cfg.ver, cfg.flavour, ev). Returns list of rejection dicts.

    Each rejection: {"trace": trace, "index": first unmatched event (1-based), "clauses": [...]}.
    """
    groups = {}
    for t in traces:
        groups.setdefault((t["cfg"]["ver"], t["cfg"]["flavour"]), []).append(t)
    os.makedirs(wd, exist_ok=True)
    jobs = []
    for (ver, fl), ts in sorted(groups.items()):
        tag = f"{name}_{ver.replace('.', '')}_{fl}"
        path = os.path.join(wd, tag + ".ndjson")
        with open(path, "w", encoding="utf-8") as fh:
            for t in ts:
                fh.write(json.dumps(_clean({"ev": t["ev"]}), ensure_ascii=True) + "\n")
        cfg = os.path.join(wd, tag + ".cfg")
        _cfg(cfg, ver, fl, proj, False)
        jobs.append((tag, ver, fl, ts, path, cfg))

    stats = {"states": 0, "generated": 0, "runs": []}

    def run_one(job):
        tag, ver, fl, ts, path, cfg = job
        r = tlc.run("GatewayTrace", cfg, workdir=os.path.join(wd, tag), workers=1, deque=True,
                    env={"TRACE_FILE": path}, timeout=timeout)
        if r.violation and r.violation.startswith("invariant"):
            raise tlc.MachineryError(f"GatewayTrace {tag}: spec invariant violated while following a trace:\n{r.trace_text[:3000]}")
        tlc.must_ok(r, f"GatewayTrace {tag}")
        rej = _parse_rejected(r.out)
        if rej is None:
            raise tlc.MachineryError(f"GatewayTrace {tag}: no REJECTED line\n{r.out[-3000:]}")
        out = []
        for tidx, upto in sorted(rej.items()):
            tr = ts[tidx - 1]
            # diagnosis run on this single trace: a hint only - the verdict is the rejection itself, so a diagnosis that
            # fails or takes too long (a diverged trace can branch widely with Diag on) must not hide it
            names = ["(not diagnosed)"]
            if len(out) < 4:
                dpath = os.path.join(wd, f"{tag}_diag{tidx}.ndjson")
                with open(dpath, "w", encoding="utf-8") as fh:
                    fh.write(json.dumps(_clean({"ev": tr["ev"][:upto]}), ensure_ascii=True) + "\n")
                dcfg = os.path.join(wd, f"{tag}_diag{tidx}.cfg")
                _cfg(dcfg, ver, fl, proj, True)
                try:
                    d = tlc.run("GatewayTrace", dcfg, workdir=os.path.join(wd, f"{tag}_d{tidx}"), workers=1, deque=True,
                                env={"TRACE_FILE": dpath}, timeout=150)
                    clauses = []
                    for m in re.finditer(r'<<"CLAUSE", \d+, (\d+), "(\w+)">>', d.out):
                        clauses.append((int(m.group(1)), m.group(2)))
                    # with Diag all choices print, so keep the names printed at the rejected index (a clause passing for some
                    # choice may still be listed)
                    names = sorted({c[1] for c in clauses if c[0] == upto}) or ["action-not-enabled"]
                except tlc.MachineryError:
                    pass
            out.append({"trace": tr, "index": upto, "clauses": names, "diag_index": upto})
        return r, out

    rejections = []
    with ThreadPoolExecutor(min(len(jobs), common.ncpu()) or 1) as ex:
        for r, out in ex.map(run_one, jobs):
            stats["states"] += r.distinct
            stats["generated"] += r.generated
            stats["runs"].append(r)
            rejections.extend(out)
    return rejections, stats
