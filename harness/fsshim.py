"""In-memory, fault-injecting file system as seen from mysensors.persistence.

Three copies per file (Python buffer, OS = vol, medium = dur); every operation is a numbered
fault point at which the harness can make the operation raise OSError or kill the process
image (Crash, a BaseException that unwinds everything).
"""
import errno
import os
import types


class Crash(BaseException):
    """The process dies here."""


class FS:
    def __init__(self, split_writes=0):
        self.vol = {}
        self.dur = {}
        self.ops = []            # (name, label, extra)
        self.fail_at = None
        self.crash_at = None
        self.split = split_writes
        self.links = {}          # symbolic links: path -> target path
        self.on_op = None        # callback(opindex, name, label) - used for contention experiments

    # fault points
    def op(self, name, path, extra=None):
        i = len(self.ops)
        self.ops.append((name, self.label(path), extra))
        if self.on_op:
            self.on_op(i, name, self.label(path))
        if self.crash_at == i:
            raise Crash(i)
        if self.fail_at == i:
            raise OSError(errno.EIO, f"injected failure at op {i} ({name})")

    @staticmethod
    def label(path):
        b = os.path.basename(path)
        if b.endswith(".bak"):
            return "bak"
        if ".tmp." in b:
            return "tmp"
        return "main"

    def listing(self):
        out = {"main": False, "bak": False, "tmp": False}
        # with a symbolic link two directories are in play: a stale temp file left in the old target directory is not
        # "the" temp file of a save that now works in another directory
        cur = os.path.dirname(self.resolve(self.main_path)) if getattr(self, "main_path", None) else None
        for p in self.vol:
            lab = self.label(p)
            if lab == "tmp" and cur is not None and os.path.dirname(p) != cur:
                continue
            out[lab] = True
        return out

    def resolve(self, p):
        return self.links.get(p, p)

    def after_crash(self, lose):
        """File system seen by the next process."""
        n = FS(self.split)
        n.links = dict(self.links)
        n.main_path = getattr(self, "main_path", None)
        for p, v in self.vol.items():
            c = self.dur.get(p, b"") if lose else v
            n.vol[p] = c
            n.dur[p] = c
        return n

    def clone(self):
        n = FS(self.split)
        n.links = dict(self.links)
        n.vol = dict(self.vol)
        n.dur = dict(self.dur)
        return n


class F:
    """File object returned by the shimmed open()."""

    def __init__(self, fs, path, mode, encoding=None):
        self.keep = None
        self.written = b""
        if isinstance(path, tuple) and path and path[0] == "fd":
            # open(fd, mode) on a descriptor from the shimmed os.open: nothing is created or truncated here (os.open did what its
            # flags said); writing starts at offset 0 and OVERWRITES - whatever the file held beyond what gets written stays
            self.fs, self.path, self.mode = fs, path[1], mode
            self.bin = "b" in mode
            self.closed = False
            self.buf = b""
            self.pos = 0
            if ("w" in mode or "+" in mode) and not (len(path) > 2 and path[2] & os.O_APPEND):
                self.keep = fs.vol.get(self.path, b"")
            return
        path = fs.resolve(path)
        self.fs, self.path, self.mode = fs, path, mode
        self.bin = "b" in mode
        self.closed = False
        self.buf = b""
        self.pos = 0
        fs.op("open", path, mode)
        if "x" in mode and path in fs.vol:
            raise FileExistsError(errno.EEXIST, "file exists", path)
        if "w" in mode or "x" in mode:
            fs.vol[path] = b""
            fs.dur.setdefault(path, b"")
            fs.dur[path] = b""
        elif "a" in mode:
            fs.vol.setdefault(path, b"")
            fs.dur.setdefault(path, b"")
        elif path not in fs.vol:
            raise FileNotFoundError(errno.ENOENT, "no such file", path)

    # writing
    def write(self, data):
        raw = data if self.bin else data.encode("utf-8")
        if self.fs.split and len(raw) > self.fs.split:
            for k in range(0, len(raw), self.fs.split):
                self.fs.op("write", self.path, len(raw[k:k + self.fs.split]))
                self.buf += raw[k:k + self.fs.split]
        else:
            self.fs.op("write", self.path, len(raw))
            self.buf += raw
        return len(data)

    def flush(self):
        self.fs.op("flush", self.path)
        self._flush()

    def _flush(self):
        if self.keep is not None:
            self.written += self.buf
            self.buf = b""
            self.fs.vol[self.path] = self.written + self.keep[len(self.written):]
        elif "w" in self.mode or "x" in self.mode or "a" in self.mode:
            self.fs.vol[self.path] = self.fs.vol.get(self.path, b"") + self.buf
            self.buf = b""

    def fileno(self):
        return ("fd", self.path)

    def close(self):
        if not self.closed:
            self.closed = True
            self.fs.op("close", self.path)
            self._flush()

    def __enter__(self):
        return self

    def __exit__(self, et, ev, tb):
        if et is not None and issubclass(et, Crash):
            return False          # the process is gone: nothing is flushed
        if not self.closed:
            self.closed = True
            try:
                self.fs.op("close", self.path)
            finally:
                self._flush()     # close() flushes the Python buffer even when the body raised
        return False

    # reading
    def _data(self):
        return self.fs.vol[self.path]

    def read(self, n=-1):
        d = self._data()[self.pos:] if n is None or n < 0 else self._data()[self.pos:self.pos + n]
        self.pos += len(d)
        return d if self.bin else d.decode("utf-8")

    def readline(self):
        buf = self._data()
        j = buf.find(b"\n", self.pos)
        j = len(buf) if j < 0 else j + 1
        d = buf[self.pos:j]
        self.pos = j
        return d if self.bin else d.decode("utf-8")

    def readinto(self, b):
        d = self._data()[self.pos:self.pos + len(b)]
        self.pos += len(d)
        b[:len(d)] = d
        return len(d)


class OsProxy:
    W_OK, R_OK = os.W_OK, os.R_OK

    def __init__(self, fs):
        self.fs = fs
        self.path = types.SimpleNamespace(
            realpath=lambda p: fs.resolve(p), isfile=self._isfile, dirname=os.path.dirname, splitext=os.path.splitext,
            basename=os.path.basename, join=os.path.join, abspath=lambda p: p, islink=lambda p: p in fs.links,
            exists=lambda p: fs.resolve(p) in fs.vol, getsize=lambda p: len(fs.vol[fs.resolve(p)]))

    def _isfile(self, p):
        self.fs.op("isfile", p)
        return self.fs.resolve(p) in self.fs.vol

    def access(self, p, mode):
        # deny: the location is momentarily not writable (set by the driver for one save attempt)
        return not (getattr(self.fs, "deny", False) and mode & os.W_OK)

    def fsync(self, fd):
        if hasattr(fd, "fileno"):
            fd = fd.fileno()
        if fd[0] == "dirfd":
            return                  # metadata operations are durable at once in this model
        self.fs.op("fsync", fd[1])
        self.fs.dur[fd[1]] = self.fs.vol[fd[1]]

    def rename(self, a, b):
        self.fs.op("rename", a, self.fs.label(b))
        if a not in self.fs.vol:
            raise FileNotFoundError(errno.ENOENT, "no such file", a)
        self.fs.links.pop(b, None)          # renaming onto a symbolic link replaces the link itself
        self.fs.vol[b] = self.fs.vol.pop(a)
        self.fs.dur[b] = self.fs.dur.pop(a, b"")

    def replace(self, a, b):
        """os.replace: on POSIX the same as rename."""
        return self.rename(a, b)

    def unlink(self, a):
        return self.remove(a)

    def link(self, a, b):
        """Hard link: b becomes another name for a's content (modelled as a copy made at this moment)."""
        self.fs.op("link", a, self.fs.label(b))
        a = self.fs.resolve(a)
        if a not in self.fs.vol:
            raise FileNotFoundError(errno.ENOENT, "no such file", a)
        if b in self.fs.vol:
            raise FileExistsError(errno.EEXIST, "file exists", b)
        self.fs.vol[b] = self.fs.vol[a]
        self.fs.dur[b] = self.fs.dur.get(a, b"")

    def open(self, p, flags=0, mode=0o777):
        """os.open: a directory (for a directory fsync) or, with write / create flags or for an existing file, a file whose
        descriptor can be handed to open() / os.fdopen(); creation and truncation happen here, exactly as the flags say."""
        if p == "" or not str(p).startswith("/virt"):
            raise FileNotFoundError(errno.ENOENT, "no such file or directory", p)
        rp = self.fs.resolve(p)
        if not (flags & (os.O_WRONLY | os.O_RDWR | os.O_CREAT)) and rp not in self.fs.vol:
            return ("dirfd", p)
        self.fs.op("open", rp, "os.open")
        if rp in self.fs.vol:
            if flags & os.O_CREAT and flags & os.O_EXCL:
                raise FileExistsError(errno.EEXIST, "file exists", p)
        elif flags & os.O_CREAT:
            self.fs.vol[rp] = b""
            self.fs.dur[rp] = b""
        else:
            raise FileNotFoundError(errno.ENOENT, "no such file", p)
        if flags & os.O_TRUNC:
            self.fs.vol[rp] = b""
            self.fs.dur[rp] = b""
        return ("fd", rp, flags)

    def fdopen(self, fd, mode="r", *args, **kwargs):
        return F(self.fs, fd, mode, kwargs.get("encoding"))

    def close(self, fd):
        return None

    def __getattr__(self, name):
        # everything that does not touch files (getpid, sep, environ, ...) is the real thing
        return getattr(os, name)

    def remove(self, a):
        self.fs.op("remove", a)
        if a in self.fs.links:
            del self.fs.links[a]
            return
        if a not in self.fs.vol:
            raise FileNotFoundError(errno.ENOENT, "no such file", a)
        self.fs.vol.pop(a)
        self.fs.dur.pop(a, None)


def install(fs):
    """Make mysensors.persistence see the shim (module attributes only; nothing in /repo is edited)."""
    import mysensors.persistence as P
    P.open = lambda p, m="r", encoding=None, fs=fs: F(fs, p, m, encoding)
    P.os = OsProxy(fs)
    return P
