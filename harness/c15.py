"""C15 - periodic saving heals itself (threaded and asyncio gateways).

M: TLC checks on spec/Persist.tla that a failed attempt leaves the committed state loadable
   (AtomicReplace), keeps the state marked unsaved (FailedAttemptHarmless), never kills the
   schedule (ScheduleAlive), and - under weak fairness, without the silent race - that an unsaved
   state is eventually saved (Heals).
B: the real schedules (SyncTasks timer chain on a virtual threading.Timer; AsyncTasks save loop on a
   real event loop with asyncio.sleep parked by the harness) run on the fault-injecting file system:
   every position of a failing operation in a sequence of scheduled saves, and an inbound message
   injected at every point of the serialisation (encoder / __getstate__ call k).  The operation
   traces, the dirty flag, whether the schedule re-armed, and every load are validated by TLC.
"""
import json
import multiprocessing as mp
import os

from . import common, ptrace, tlc

PID = "C15"


def scenario(args):
    import logging
    logging.disable(logging.CRITICAL)
    from .pdrv import PDriver
    ext, flavour, kind, pos, k, check_load, seed = args[:7]
    symlink = len(args) > 7 and args[7]   # persistence file configured through a symbolic link into another directory
    d = PDriver(ext, flavour=flavour, seed=seed, symlink=symlink)
    try:
        d.mutate()
        d.mutate()
        fault = ("fail", k) if kind == "fail" else ("deny", 0) if kind == "deny" else None
        contend = k if kind == "contend" else None
        fired = False
        f, n = d.start_schedule(fault if pos == 0 else None, contend if pos == 0 else None)
        fired = fired or f or (pos == 0 and kind == "contend")
        for p in (1, 2):
            if check_load is True and fired:
                break
            d.mutate()
            f, n = d.tick(fault if pos == p else None, contend if pos == p else None)
            fired = fired or f or (pos == p and kind == "contend")
        if kind == "fail" and not fired:
            return None
        if check_load is True:
            # the failed attempt must leave the previous file loadable
            d.crash_now(seed % 2 == 0)
            d.startup()
        elif check_load == "quiet":
            # nothing else happens: the next attempt alone must bring the then-current state to disk (also when the
            # disturbed attempt "succeeded" on a snapshot that missed the concurrent change)
            d.tick()
            d.crash_now(True)
            d.startup()
        else:
            # the next successful attempt persists the then-current state
            d.mutate()
            d.tick()
            d.crash_now(True)
            d.startup()
    finally:
        d.close()
    return d.trace({"kind": kind, "pos": pos, "k": k, "check_load": check_load, "symlink": symlink})


def run(tier):
    rep = common.Report(PID, tier)
    wd = common.workdir(PID)
    for cfgname in ("Persist", "Persist_live"):
        r = tlc.run("Persist", os.path.join(common.SPEC, cfgname + ".cfg"), workdir=os.path.join(wd, cfgname), timeout=900)
        if r.violation:
            raise tlc.MachineryError(f"Persist.tla self-check failed ({cfgname}): {r.trace_text[:2000]}")
        tlc.must_ok(r, cfgname)
        rep.add_tlc(cfgname, r)
    jobs = []
    from .c12 import count_ops
    for ext in ("json", "pickle"):
        nops = count_ops(ext, 0, "good") + 1       # every operation of a save that replaces an existing file
        for flavour in ("sync", "async"):
            for pos in (0, 1, 2):
                ks = range(nops) if tier == "thorough" else (range(nops) if pos == 1 else list(range(0, nops, 3)) + [nops - 3, nops - 2, nops - 1])
                for k in ks:
                    for check_load in (False, True, "quiet"):
                        jobs.append((ext, flavour, "fail", pos, k, check_load, len(jobs)))
                        if k >= nops - 5:       # renames / remove: also with a symlinked persistence file
                            jobs.append((ext, flavour, "fail", pos, k, check_load, len(jobs), True))
                # the location is not writable at that attempt (the save gives up at its pre-check without raising)
                for check_load in (False, True, "quiet"):
                    jobs.append((ext, flavour, "deny", pos, 0, check_load, len(jobs)))
                for k in range(0, 8 if tier == "quick" else 14):
                    jobs.append((ext, flavour, "contend", pos, k, False, len(jobs)))
                    jobs.append((ext, flavour, "contend", pos, k, True, len(jobs)))
                    jobs.append((ext, flavour, "contend", pos, k, "quiet", len(jobs)))
    with mp.get_context("fork").Pool(common.ncpu()) as pool:
        traces = [t for t in pool.map(scenario, jobs, chunksize=4) if t is not None]
    rej, stats = ptrace.validate(traces, os.path.join(wd, "val"))
    rep.cov["states"] += stats["states"]
    rep.cov["transitions"] += stats["generated"]
    rep.cov["traces_validated_against_impl"] = len(traces)
    rep.cov["evaluations"] = len(traces)
    noticed = 0
    for t in traces:
        c = t["cfg"]
        rep.nontrivial((c["ext"], c["flavour"], c["kind"], c["pos"], c["k"], c["check_load"], c["symlink"]))
        noticed += any(e["a"] == "Mutate" and e["noticed"] for e in t["ev"])
    rep.cov["saves_aborted_by_concurrent_change"] = noticed
    for r in rej:
        ev = r["trace"]["ev"][r["index"] - 1]
        c = r["trace"]["cfg"]
        sig = {"clauses": r["clauses"], "event": ev["a"], "ext": c["ext"], "flavour": c["flavour"], "kind": c["kind"]}
        rep.violation(sig, {"cfg": c, "script": r["trace"]["script"], "rejected_at": r["index"],
                            "events": [e["a"] + ("(noticed)" if e.get("noticed") else "") +
                                       (f"->{e['loaded']}" if e["a"] == "StartUp" else "") for e in r["trace"]["ev"]]})
    rep.cov["rule"] = ("both formats x {threaded, asyncio} x position 0..2 of the disturbed save in the schedule x (failing operation index k | location not writable | "
                       "inbound message at serialiser call k) x {continue until the next successful save, then crash+load | crash+load "
                       "right after the disturbed attempt}. Every trace is non-trivial; distinct by those parameters.")
    if traces:
        t = traces[len(traces) // 3]
        rep.sample({"cfg": t["cfg"], "events": [e["a"] for e in t["ev"]]})
    rep.assumptions += ["threading.Timer replaced by a virtual timer as seen from mysensors.task; asyncio.sleep parked by the harness; "
                        "run_in_executor is the real default executor", "contention is simulated deterministically by running an inbound "
                        "message from inside the serialiser (encoder.default / Sensor.__getstate__), not by a second thread",
                        "the lost-update race of a change that the dump does not notice (DESIGN observation 9b) is outside the listed properties"]
    return rep.finish()


def replay(path):
    with open(path, encoding="utf-8") as fh:
        print(json.dumps(json.load(fh), indent=1)[:3000])
    return 0
