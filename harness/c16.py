"""C16 - sending races safely with connection loss and shutdown.

M: TLC explores every interleaving of SendRace.tla (pump, producers, reader thread reporting a lost
   connection with / without error, user disconnect, connect thread) for the repaired design
   (NoExceptionIntoPump, AtMostOnce, QueueOrder, ExactlyOnceOrDropped) and, as documentation, finds the
   AttributeError of the pinned code (Snapshot = FALSE).
B: the real Transport.send / SyncTransport / BaseMySensorsProtocol / SyncTasks code runs under a
   deterministic line-level scheduler (sys.settrace, one baton); every schedule with at most P
   preemptions is executed for each scenario; the recorded effects (writes with the connection's state
   at that moment, failed writes, closes, callbacks, reconnect requests, new connections) are validated
   by TLC against SendRace.tla with the internal reads as silent steps (SendRaceTrace.tla).
"""
import json
import multiprocessing as mp
import os
import re
from concurrent.futures import ThreadPoolExecutor

from . import common, tlc
from .gwtrace import _parse_rejected

PID = "C16"
SCENARIOS = [  # name, lost (None=no reader actor, False=without error, True=with error), user, connector, messages
    ("lost_noexc", False, False, False, 2),
    ("lost_exc", True, False, True, 2),
    ("user", None, True, False, 2),
    ("lost_exc_user", True, True, True, 2),
    ("lost_noexc_user", False, True, False, 3),
    ("plain", None, False, False, 4),          # two producer threads and the real poll loop, no faults
    # the same with a re-entrant producer: the job of message 1, while the pump runs it, queues message 4 itself (what a handler or an
    # event callback does when it calls add_job / set_child_value) - message 4 takes its place at the END of the queue
    ("nested", None, False, False, 4),
    ("stop", None, "stop", False, 3),          # the user calls SyncTasks.stop() (disconnect + stop flag) while the pump works
    ("lost_exc_stop", True, "stop", True, 2),
]


def execute(args):
    import logging
    logging.disable(logging.CRITICAL)
    import serial
    import mysensors
    import mysensors.task as TASK
    import mysensors.transport as TR
    from .sched import Sched
    (name, lost, user, connector, nmsgs, switches) = args[:6]
    kind = args[6] if len(args) > 6 else "fake"
    events = []
    state = {"kpend": 0, "nconn": 1, "finished": set()}
    sched = Sched([TR.__file__, TASK.__file__], switches)

    class SLock:
        """threading.Lock as the scheduler sees it: an actor that finds it taken hands the baton on instead of blocking the
        whole (one-baton) execution."""
        def __init__(self):
            self.held = False

        def __enter__(self):
            if self.held:
                sched.wait_until(sched.cur, lambda: not self.held)
            self.held = True
            return self

        def __exit__(self, *a):
            self.held = False
            return False

    def who():
        return {"pump": "sender", "reader": "reader", "user": "user", "connector": "connector"}.get(sched.cur, "producer")

    class Conn:
        def __init__(self, cid):
            self.cid, self.open, self.serial = cid, True, self

        def write(self, data):
            m = int(data.decode().split(";")[0])
            if not self.open:
                events.append({"a": "write_failed", "c": self.cid, "m": m, "who": who()})
                raise serial.SerialException("port is closed")
            events.append({"a": "write", "c": self.cid, "m": m, "who": who()})

        def close(self):
            events.append({"a": "close", "c": self.cid, "m": 0, "who": who()})
            self.open = False

        # the same device seen as a socket (kind "tcp")
        def sendall(self, data):
            try:
                self.write(data)
            except serial.SerialException as exc:
                raise OSError(9, "Bad file descriptor") from exc

        def setblocking(self, flag):
            pass

        def fileno(self):
            return 3 + self.cid if self.open else -1

    def transport_for(conn):
        """What protocol.transport holds: the fake device itself, or the library's real TCP transport object around it
        (reader thread not started: the scenario's reader actor plays its part)."""
        if kind == "fake":
            return conn
        import mysensors.gateway_tcp as GT

        class Select:
            @staticmethod
            def select(r, w, x, timeout=None):
                for sck in list(r) + list(w) + list(x):
                    if sck.fileno() < 0:
                        raise ValueError("file descriptor cannot be a negative integer (-1)")   # what select() says about a closed socket
                return [], list(w), []
        GT.select = Select
        t = GT.TCPTransport(conn, lambda: tr.protocol, lambda: None)
        t._lock = SLock()
        t.join = lambda timeout=None: None          # ReaderThread.close() joins the reader thread, which the harness plays itself
        return t

    def reconnect(transport=None):
        if state.get("starting"):
            return                      # SyncTasks.start() asks for the first connection: the scenario begins with it in place
        events.append({"a": "reconnect", "c": 0, "m": 0, "who": who()})
        state["kpend"] += 1

    class InlineThread:
        """threading.Thread as seen from mysensors.transport: the real SyncTransport.connect() runs (it is the protocol's
        reconnect callback); the connect thread it starts only files the request for the scenario's connector actor."""
        def __init__(self, target=None, args=(), **kw):
            self.target, self.args = target, args

        def start(self):
            self.target(*self.args)
    import threading as _threading
    import types as _types
    TR.threading = _types.SimpleNamespace(Thread=InlineThread, Lock=_threading.Lock, Event=_threading.Event)
    gw = mysensors.Gateway()
    tr = TR.SyncTransport(gw, reconnect)
    tr._lock = SLock()
    gw.tasks = TASK.SyncTasks(gw.const, False, None, gw.sensors, tr)
    gw.on_conn_lost = lambda g, e: events.append({"a": "cb_lost", "c": 0, "m": 0, "who": who()})
    # The poll thread is created by the library's own SyncTasks.start(): threading as seen from mysensors.task hands out a thread
    # object whose body the scenario's pump actor runs under the scheduler, and which current_thread() names while that actor runs
    # (a library that treats "called on the poll thread" specially must meet exactly that situation here).
    class PollThread:
        def __init__(self, target=None, args=(), **kw):
            self.target, self.args = target, args
            state["poll_thread"] = self

        def start(self):
            pass

    class TaskThreading:
        Thread = PollThread

        @staticmethod
        def current_thread():
            if sched.cur == "pump" and state.get("poll_thread") is not None:
                return state["poll_thread"]
            return _threading.current_thread()

        def __getattr__(self, name):
            return getattr(_threading, name)
    TASK.threading = TaskThreading()
    state["starting"] = True
    try:
        gw.tasks.start()
    finally:
        state["starting"] = False
    proto = tr.protocol
    proto.connection_made(transport_for(Conn(1)))


    nprod = 2 if name in ("plain", "nested") else 1
    nouter = nmsgs - 1 if name == "nested" else nmsgs
    shares = [list(range(1 + k, nouter + 1, nprod)) for k in range(nprod)]

    def nested_job():
        gw.tasks.add_job(lambda: f"{nmsgs};255;3;0;6;M\n")
        events.append({"a": "produce", "c": 0, "m": nmsgs, "who": "pump"})
        return "1;255;3;0;6;M\n"

    def make_producer(k):
        def producer():
            try:
                for i in shares[k]:
                    gw.tasks.add_job(nested_job if (name == "nested" and i == 1) else (lambda i=i: f"{i};255;3;0;6;M\n"))
                    events.append({"a": "produce", "c": 0, "m": i, "who": "producer"})
            finally:
                state["finished"].add(f"producer{k}")
        return producer
    producers = {f"producer{k}" for k in range(nprod)}

    class PumpTime:
        """time as seen from mysensors.task: the idle sleep of the real _poll_queue parks on the scheduler."""
        @staticmethod
        def sleep(d):
            if gw.tasks._stop_event.is_set():
                return
            if producers <= state["finished"] and not gw.tasks.queue:
                gw.tasks._stop_event.set()      # everything queued has been handled: let the loop end
                return
            sched.wait_until("pump", lambda: bool(gw.tasks.queue) or producers <= state["finished"] or gw.tasks._stop_event.is_set())

        @staticmethod
        def time():
            return 0.0
    TASK.time = PumpTime

    def pump():
        try:
            pt = state.get("poll_thread")
            if pt is not None:
                pt.target(*pt.args)             # the body of the thread SyncTasks.start() made: the real poll loop
            else:
                gw.tasks._poll_queue()
        finally:
            state["finished"].add("pump")

    def reader():
        try:
            proto.connection_lost(serial.SerialException("device reports readiness to read but returned no data") if lost else None)
        finally:
            state["finished"].add("reader")

    def user_actor():
        try:
            if user == "stop":
                gw.tasks.stop()                 # the real SyncTasks.stop (no persistence configured)
            else:
                tr.disconnect()
        finally:
            state["finished"].add("user")

    others = producers | {"pump"} | ({"reader"} if lost is not None else set()) | ({"user"} if user else set())

    def connector_actor():
        while True:
            sched.wait_until("connector", lambda: state["kpend"] > 0 or others <= state["finished"])
            if state["kpend"] == 0:
                return
            state["kpend"] -= 1
            if tr.protocol:                      # "while transport.protocol:" in sync_connect
                state["nconn"] += 1
                c = Conn(state["nconn"])
                # one specification step (K1): the new connection becomes visible and is logged without a switch in
                # between, otherwise a write to it could be logged before the event that made it visible
                sched.atomic = True
                try:
                    tr.protocol.connection_made(transport_for(c))   # what ReaderThread.run does first
                    events.append({"a": "made", "c": c.cid, "m": 0, "who": "connector"})
                finally:
                    sched.atomic = False

    actors = [(f"producer{k}", make_producer(k)) for k in range(nprod)] + [("pump", pump)]
    if lost is not None:
        actors.append(("reader", reader))
    if user:
        actors.append(("user", user_actor))
    if connector:
        actors.append(("connector", connector_actor))
    res = sched.run(actors)
    raised = {k: v[1] for k, v in res.items() if v[0] == "raise"}
    for k, v in raised.items():
        events.append({"a": "raised", "c": 0, "m": 0, "who": {"pump": "sender"}.get(k, k), "text": v[:80]})
    nwrites = sum(1 for e in events if e["a"] == "write")
    nleft = len(gw.tasks.queue)                 # after stop(): still queued, never sent
    return {"scenario": name, "kind": kind, "switches": switches, "ev": events, "nproduced": nmsgs, "ndropped": nmsgs - nwrites - nleft,
            "nleft": nleft,
            "steps": sched.step, "raised": raised, "hung": sched.deadlock}


def run(tier):
    rep = common.Report(PID, tier)
    wd = common.workdir(PID)
    # ---- M
    for cfg in ("SendRace_fixed_exc", "SendRace_fixed_noexc", "SendRace_snap_only", "SendRace_stop"):
        r = tlc.run("SendRace", os.path.join(common.SPEC, cfg + ".cfg"), workdir=os.path.join(wd, cfg), timeout=900)
        if r.violation:
            raise tlc.MachineryError(f"SendRace.tla ({cfg}) violates {r.violation}\n{r.trace_text[:2000]}")
        tlc.must_ok(r, cfg)
        rep.add_tlc(cfg, r)
    r = tlc.run("SendRace", os.path.join(common.SPEC, "SendRace_pinned.cfg"), workdir=os.path.join(wd, "pinned"), timeout=900)
    rep.cov["pinned_code_model_violation"] = r.violation or "none"
    # ---- B
    from .sched import schedules
    bound = 2 if tier == "quick" else 3
    jobs = []
    for (name, lost, user, connector, nmsgs) in SCENARIOS:
        probe = execute((name, lost, user, connector, nmsgs, {}))
        if probe["hung"]:
            rep.violation({"kind": "execution-never-finishes", "scenario": name},
                          {"scenario": name, "switches": {}, "events": probe["ev"], "raised": probe["raised"]})
            return rep.finish()
        nsteps = probe["steps"] + 4
        acts = (["producer0", "producer1"] if name == "plain" else ["producer0"]) + ["pump"] + (["reader"] if lost is not None else []) + (["user"] if user else []) + \
               (["connector"] if connector else [])
        if bound <= 2:
            scheds = schedules(nsteps, acts, bound)
            if tier == "quick" and len(scheds) > 2500:
                import random
                rng = random.Random(common.seed())
                scheds = scheds[:1 + nsteps * len(acts)] + rng.sample(scheds[1 + nsteps * len(acts):], 2500)
        else:
            import random
            rng = random.Random(common.seed())
            scheds = schedules(nsteps, acts, 2)
            scheds += [{s: rng.choice(acts) for s in sorted(rng.sample(range(1, nsteps + 1), 3))} for _ in range(6000)]
        for sw in scheds:
            jobs.append((name, lost, user, connector, nmsgs, sw, "fake"))
        # the same schedules with the library's real TCP transport object between send() and the device
        for sw in (scheds if tier == "thorough" else scheds[:1 + nsteps * len(acts)] + scheds[1 + nsteps * len(acts)::3]):
            jobs.append((name, lost, user, connector, nmsgs, sw, "tcp"))
    runs, hung = [], []
    with mp.get_context("fork").Pool(common.ncpu()) as pool:
        for x in pool.imap_unordered(execute, jobs, chunksize=16):
            (hung if x["hung"] else runs).append(x)
            if len(hung) >= 3:
                pool.terminate()            # every hung run costs seconds of real time; three are enough to report
                break
    for x in hung:
        # an actor blocks for ever inside the library (not at a scheduler switch point): whatever is still queued is
        # neither sent nor dropped
        rep.violation({"kind": "execution-never-finishes", "scenario": x["scenario"]},
                      {"scenario": x["scenario"], "switches": x["switches"], "events": x["ev"], "raised": x["raised"]})
    if hung:
        rep.cov["evaluations"] = len(runs) + len(hung)
        return rep.finish()
    # distinct event sequences only (many schedules produce the same observable behaviour)
    groups = {}
    for x in runs:
        key = (x["scenario"], json.dumps(x["ev"]))          # (the kind of transport object is not part of the observable behaviour)
        groups.setdefault(key, x)
    by_scn = {}
    for (scn, _), x in groups.items():
        by_scn.setdefault(scn, []).append(x)
    rejected = []

    def val(scn):
        name, lost, user, connector, nmsgs = next(s for s in SCENARIOS if s[0] == scn)
        ts = by_scn[scn]
        path = os.path.join(wd, f"{scn}.ndjson")
        with open(path, "w", encoding="utf-8") as fh:
            for t in ts:
                fh.write(json.dumps({"ev": t["ev"], "nproduced": t["nproduced"], "ndropped": t["ndropped"], "nleft": t["nleft"]}) + "\n")
        cfg = os.path.join(wd, f"{scn}.cfg")
        with open(cfg, "w", encoding="utf-8") as fh:
            fh.write(f"SPECIFICATION TSpec\nCONSTANTS NMsgs = {nmsgs}\n Snapshot = TRUE\n ClearFirst = TRUE\n"
                     f" LostExc = {'TRUE' if lost else 'FALSE'}\n WithUser = {'TRUE' if user else 'FALSE'}\n WithStop = {'TRUE' if user == 'stop' else 'FALSE'}\n"
                     f" WithLost = {'TRUE' if lost is not None else 'FALSE'}\n WithConnector = {'TRUE' if connector else 'FALSE'}\n"
                     " MaxConn = 4\nCONSTRAINT Track\nPOSTCONDITION Post\nCHECK_DEADLOCK FALSE\n"
                     "INVARIANT NoExceptionIntoPump\nINVARIANT AtMostOnce\nINVARIANT QueueOrder\nINVARIANT Conservation\n")
        r = tlc.run("SendRaceTrace", cfg, workdir=os.path.join(wd, "t_" + scn), workers=1, deque=True,
                    env={"TRACE_FILE": path}, timeout=1800)
        tlc.must_ok(r, f"SendRaceTrace {scn}")
        m = re.search(r'"REJECTEDSET",\s*\{([^}]*)\}', r.out)
        if not m:
            raise tlc.MachineryError(f"SendRaceTrace {scn}: no verdict\n{r.out[-2000:]}")
        bad = [int(x) for x in m.group(1).replace("\n", " ").split(",") if x.strip()]
        return r, [ts[i - 1] for i in bad]
    with ThreadPoolExecutor(len(by_scn)) as ex:
        for r, bad in ex.map(val, list(by_scn)):
            rep.cov["states"] += r.distinct
            rep.cov["transitions"] += r.generated
            rejected += bad
    for x in rejected:
        sig = {"kind": "not-a-behaviour-of-SendRace", "scenario": x["scenario"],
               "raised": sorted({v.split(":")[0] for v in x["raised"].values()}),
               "events": [e["a"] for e in x["ev"]][-4:]}
        rep.violation(sig, {"scenario": x["scenario"], "kind": x["kind"], "switches": x["switches"], "events": x["ev"], "raised": x["raised"]})
    rep.cov["traces_validated_against_impl"] = len(groups)
    rep.cov["evaluations"] = len(runs)
    for k in groups:
        rep.nontrivial(k)
    rep.cov["schedules_executed"] = len(runs)
    rep.cov["rule"] = (f"scenarios {[s[0] for s in SCENARIOS]}; every schedule with <= {min(bound, 2)} preemptions at source-line granularity "
                       "inside transport.py / task.py (quick: capped by seeded sampling; thorough: plus 6000 random 3-preemption "
                       "schedules per scenario); distinct observable event sequences are validated. Non-trivial = distinct event sequence.")
    if runs:
        rep.sample({"scenario": runs[len(runs) // 2]["scenario"], "switches": runs[len(runs) // 2]["switches"],
                    "events": runs[len(runs) // 2]["ev"]})
    rep.assumptions += ["switch points are source lines of mysensors/transport.py and task.py (byte-code level races inside a line are not explored)",
                        "connections are fakes: write on a closed connection raises SerialException, close is idempotent"]
    return rep.finish()


def replay(path):
    with open(path, encoding="utf-8") as fh:
        d = json.load(fh)["replay"]
    scn = next(s for s in SCENARIOS if s[0] == d["scenario"])
    x = execute(scn + ({int(k): v for k, v in d["switches"].items()}, d.get("kind", "fake")))
    print(json.dumps(x, indent=1)[:3000])
    return 0
