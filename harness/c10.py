"""C10 - OTA sessions are gated, restartable and terminate."""
from . import gwcheck, gwfocus

PID = "C10"
PROJ = ["out", "ota", "trans", "exc", "cb"]
PROPS = ["OnlyScheduledNodesServed", "ConfigWithheldAfterFetchStarted", "BlocksOnlyAfterConfig",
         "MalformedFwRequestIgnored", "RebootUntilPresented", "NoEffectOnBad"]
INVS = ["RebootOnlyAfterUpdate", "Disciplines"]


def _ota_event(ev):
    if ev["a"] == "UpdateFw":
        return True
    return ev["a"] in ("Recv", "Pump") and (any(c[2] == 4 for c in ev["out"]) or
                                             any(c[2] == 3 and c[4] == 13 for c in ev["out"]))


def run(tier):
    focus = [("ota", gwfocus.ota, ["1.4", "2.0", "2.2"], ["async", "sync"], False)]
    chk = gwcheck.GwCheck(PID, tier, PROJ, focus=focus, mc_props=PROPS, mc_invs=INVS,
                          mc_depth_quick=6, mc_depth_thorough=8,
                          profile={"fwcfg": 22, "fwreq": 26, "set": 16, "pres": 12, "otherstream": 3, "wake": 5},
                          scripts=gwfocus.ota_scripts, nontrivial=_ota_event)
    return chk.run()


def replay(path):
    return gwcheck.replay_file(path, PROJ)
