"""Entry point: ./check <property id> --tier quick|thorough [--replay file]."""
import argparse
import importlib
import logging
import os
import sys
import traceback

from . import common
from .tlc import MachineryError


def main():
    ap = argparse.ArgumentParser()
    ap.add_argument("pid")
    ap.add_argument("--tier", default=os.environ.get("VERIF_TIER", "quick"), choices=["quick", "thorough"])
    ap.add_argument("--replay")
    args = ap.parse_args()
    logging.disable(logging.CRITICAL)
    pid = args.pid.upper()
    # last resort against a check that never ends (library code looping under the harness): a machinery error, never a verdict
    import threading
    limit = int(os.environ.get("VERIF_WALL_LIMIT", "3600" if args.tier == "quick" else "28800"))

    def give_up():
        print(f"MACHINERY-ERROR: {pid} did not finish within {limit} s", file=sys.stderr)
        sys.stderr.flush()
        os._exit(2)
    wd = threading.Timer(limit, give_up)
    wd.daemon = True
    wd.start()
    try:
        mod = importlib.import_module(f"harness.{pid.lower()}")
    except ImportError as exc:
        common.die_machinery(f"no check module for {pid}: {exc}")
    try:
        if args.replay:
            rc = mod.replay(args.replay)
        else:
            rc = mod.run(args.tier)
    except MachineryError as exc:
        common.die_machinery(str(exc))
    except Exception:  # pylint: disable=broad-except
        tb = traceback.format_exc()
        print(tb, file=sys.stderr)
        common.die_machinery("unexpected exception in harness\n" + tb)
    sys.stdout.flush()
    os._exit(rc)


if __name__ == "__main__":
    main()
