"""C19 - behaviour depends only on the lines received.

M: (a) Framing.tla: for every byte stream <= 6 and every segmentation the lines handed out are the lines of
       the bytes received so far (ChunkingIrrelevant);
   (b) Flavours.tla: product of the threaded and the asyncio instance of Gateway.tla: StateAgree and
       MultisetAgree for EVERY pump schedule, SequenceAgree under the reference schedule (pump drained
       between lines); with arbitrary schedules TLC produces the counterexample of the known finding.
B: the real BaseMySensorsProtocol.data_received (and TCPTransport.run with a fake socket) is fed every
   segmentation of concrete byte streams; the real threaded and asyncio gateways are run on the same
   line sequences with reference and random pump schedules.  Lines, states and ordered transport logs
   are compared by TLC (StreamTrace.tla); every run is also validated against Gateway.tla.
"""
import itertools
import json
import os
import random
import threading

from . import common, gwcheck, gwfocus, gwgen, gwmc, gwtrace, tlc
from .c03 import _parse_bad
from .gwdrv import Driver
from .payload import Interner

PID = "C19"
PROJ = ["out", "jobs", "tree", "trans", "exc"]
SNIPPETS = [b"1;0;1;0;23;43\n", b"255;255;3;0;3;\r\n", b"1;255;0;0;17;2.2\n", b"garbage\n", b"\n", b"\r\n", b"1;0;1;0;47;\xc3\xa9t\xc3\xa9\n",
            b"1;0;1;0;47;\xf0\x9f\x98\x80\r\n", b"\xff\xfe\n", b"1;0;1;0;47;\xc3\n", b"no newline yet", b"9;0;2;0;0;\n", b";;;;;\n",
            b"1;255;3;0;6;0\n\n", b"\r", b"\xe2\x82",
            # characters that str.splitlines() / bytes.splitlines() treat as line ends but the protocol does not
            b"1;0;1;0;47;a\x0bb\n", b"1;0;1;0;47;a\x0cb\x1cc\x1dd\x1ee\n", b"1;255;3;0;11;sk\xc2\x85etch\n",
            b"1;255;3;0;12;1\xe2\x80\xa8.0\r\n", b"1;0;1;0;47;a\rb\n",
            # a UTF-8 byte order mark in front of a frame (three bytes that a chunk boundary can cut)
            b"\xef\xbb\xbf1;255;0;0;17;2.0\n"]


class _Stub:
    """Gateway stub that records what handle_line hands over."""

    def __init__(self):
        self.lines = []
        outer = self

        class T:
            transport = type("X", (), {"can_log": True})()

            @staticmethod
            def add_job(func, *args):
                outer.lines.append(args[0])
        self.tasks = T()
        self.on_conn_made = self.on_conn_lost = None

    def logic(self, line):
        return None


def feed_protocol(stream, cuts, loss_at=None, cls="base"):
    """loss_at: byte position at which the connection is lost (without error) and made again before the rest arrives.
    cls: which of the library's protocol classes receives the bytes (threaded base / asyncio serial / asyncio TCP)."""
    from mysensors.transport import BaseMySensorsProtocol, AsyncMySensorsProtocol
    from mysensors.gateway_tcp import AsyncTCPMySensorsProtocol
    gw = _Stub()
    gw.cancel_check_conn = None
    proto = {"base": BaseMySensorsProtocol, "aserial": AsyncMySensorsProtocol, "atcp": AsyncTCPMySensorsProtocol}[cls](gw, lambda: None)
    conn = type("Conn", (), {"close": lambda self: None})()
    conn.serial = conn
    proto.connection_made(conn)
    pos = 0
    marks = sorted(set(list(cuts) + [len(stream)] + ([loss_at] if loss_at is not None else [])))
    for c in marks:
        if c > pos:
            proto.data_received(stream[pos:c])
            pos = c
        if loss_at is not None and c == loss_at:
            proto.connection_lost(None)
            proto.connection_made(conn)
    return gw.lines


def feed_tcp(stream, cuts):
    """The same through TCPTransport.run reading from a fake socket (non-blocking recv of <= 120 bytes)."""
    import mysensors.gateway_tcp as G
    from mysensors.transport import BaseMySensorsProtocol
    gw = _Stub()
    proto = BaseMySensorsProtocol(gw, lambda: None)
    chunks = []
    pos = 0
    for c in list(cuts) + [len(stream)]:
        if c > pos:
            chunks.append(stream[pos:c])
            pos = c

    class Sock:
        def setblocking(self, flag):
            pass

        def recv(self, n):
            if not chunks:
                raise OSError("end of test stream")
            head = chunks[0]
            if len(head) > n:
                chunks[0] = head[n:]
                return head[:n]
            return chunks.pop(0)

        def close(self):
            pass
        shutdown = close

        def sendall(self, data):
            pass
    sock = Sock()
    keep = (G.select, G.time)

    class Sel:
        @staticmethod
        def select(r, w, x, timeout=None):
            return (r, w, [])

    class Tm:
        @staticmethod
        def sleep(x):
            pass

        @staticmethod
        def time():
            return 0.0
    G.select, G.time = Sel, Tm
    try:
        t = G.TCPTransport(sock, lambda: proto, lambda: None)
        t.run()           # in this thread: ends when the fake socket raises
    finally:
        G.select, G.time = keep
    return gw.lines


def classes(stream):
    return ["n" if b == 10 else "r" if b == 13 else "m" if b >= 128 else "a" for b in stream]


def framing_records(tier, rng):
    F = []
    ids = {}

    def lid(s):
        return ids.setdefault(s, len(ids) + 1)
    streams = []
    for k in range(1, 4):
        for combo in itertools.islice(itertools.permutations(SNIPPETS, k), 0, 40 if tier == "quick" else 400, 3):
            streams.append(b"".join(combo))
    streams += [bytes(rng.choice(b"\n\r;01a\xc3\xa9\xff") for _ in range(rng.randint(0, 12))) for _ in range(60 if tier == "quick" else 600)]
    # long lines: a frame padded to a length around every power of two (a buffer or length limit would sit there), LF and CRLF
    # endings, between two ordinary frames
    longs = []
    for p2 in ([64, 128, 256, 512, 1024, 4096] if tier == "quick" else [64, 128, 256, 512, 1024, 2048, 4096, 8192, 16384]):
        for total in (p2 - 1, p2, p2 + 1):
            for end in (b"\n", b"\r\n"):
                head = b"7;255;0;0;17;2.2" if total % 2 else b"1;0;1;0;47;"
                fill = b" " if total % 2 else b"x"
                line = head + fill * (total - len(head) - len(end)) + end          # len(line) == total, terminator included
                line2 = head + fill * (total - len(head)) + end                   # total bytes before the terminator
                for ln in (line, line2):
                    longs.append(b"1;0;1;0;23;43\n" + ln + b"255;255;3;0;3;\n")
    for stream in longs:
        ref = [seg.decode("utf-8", "replace") for seg in stream.split(b"\n")[:-1]]
        n = len(stream)
        ends = [i for i in range(1, n) if stream[i] == 10 or stream[i] == 13 or stream[i - 1] == 13 or stream[i - 1] == 10]
        cutsets = [[], ends, [i for i in ends if stream[i] == 10], list(range(1, n)) if n <= 700 else list(range(7, n, 7)),
                   sorted(rng.sample(range(1, n), 5))]
        for cuts in cutsets:
            obs = feed_protocol(stream, cuts)
            F.append([classes(stream), [lid(x) for x in obs], [lid(x) for x in ref]])
        for cuts in cutsets[:3]:
            obs = feed_tcp(stream, cuts)
            F.append([classes(stream), [lid(x) for x in obs], [lid(x) for x in ref]])
    for stream in streams:
        ref = [seg.decode("utf-8", "replace") for seg in stream.split(b"\n")[:-1]]
        n = len(stream)
        if n <= 9:
            cutsets = [[i for i in range(1, n) if (mask >> (i - 1)) & 1] for mask in range(1 << max(0, n - 1))]
        else:
            special = [i for i in range(1, n) if stream[i] >= 128 or stream[i - 1] == 13 or stream[i] == 10]
            after_lf = [i for i in range(1, n) if stream[i - 1] == 10]         # every chunk is a whole number of lines
            cutsets = [[], list(range(1, n)), special, after_lf] + [sorted(rng.sample(range(1, n), rng.randint(1, min(6, n - 1))))
                                                           for _ in range(6 if tier == "quick" else 25)]
        for ci, cuts in enumerate(cutsets):
            obs = feed_protocol(stream, cuts, cls=("base", "aserial", "atcp")[ci % 3])
            F.append([classes(stream), [lid(x) for x in obs], [lid(x) for x in ref]])
        for cuts in cutsets[:3]:
            obs = feed_tcp(stream, cuts)
            F.append([classes(stream), [lid(x) for x in obs], [lid(x) for x in ref]])
            # whole-line and unsplit deliveries also to the asyncio protocol classes
            for cls in ("aserial", "atcp"):
                obs = feed_protocol(stream, cuts, cls=cls)
                F.append([classes(stream), [lid(x) for x in obs], [lid(x) for x in ref]])
        if n >= 3:
            # the connection is lost and made again somewhere in the stream (in the middle of a line, at a line end): the
            # lines are still those of the bytes received, whatever the chunks
            lf = [i for i in range(1, n) if stream[i] == 10]
            for loss in {rng.randrange(1, n), (lf[0] if lf else 1), (lf[0] + 1 if lf and lf[0] + 1 < n else 1), max(1, n - 2)}:
                for cuts in (cutsets[:3] + cutsets[-2:]):
                    obs = feed_protocol(stream, cuts, loss_at=loss)
                    F.append([classes(stream), [lid(x) for x in obs], [lid(x) for x in ref]])
    return F


def _final(drv):
    st = drv.state()
    return json.dumps([st["tree"], st["trans"], st["sess"], st["fw"]], sort_keys=True)


def flavour_records(tier, rng, wd):
    """Same line sequence -> asyncio gateway, threaded gateway with the reference schedule, threaded gateway
    with a random pump schedule."""
    E, traces, meta = [], [], []
    n = 60 if tier == "quick" else 1500
    for i in range(n):
        ver = rng.choice(gwcheck.ALL_VERS)
        gen = gwgen.Gen(rng, ver, {"garbage": 2, "invalid": 3, "wake": 14, "req": 14, "idreq": 6, "config": 6})
        steps = []
        burst = i % 12 == 5           # a long stream delivered while the poll thread is stalled (everything queued, pumped at the end)
        for _ in range(rng.randint(8, 30) if not burst else rng.randint(150, 400)):
            if rng.random() < 0.12 and not burst:
                t = gen.t()
                steps.append(("set", gen.n(), gen.c(), t, gen.val(t)))
            else:
                steps.append(("line", gen.line() + "\n"))
        if i % 10 == 9 and ver in ("2.0", "2.1", "2.2"):
            # scripted: a sleeping node with a pending desired value; its wake-up announcement and its own report of that value
            # type (and a value request) are delivered in one go
            wk = f"1;255;3;0;{32 if ver == '2.2' else 22};500\n"
            steps = [("line", f"1;255;0;0;17;{ver}\n"), ("line", "1;0;0;0;6;temp\n"), ("line", "1;0;1;0;0;43\n"), ("line", wk),
                     ("set", 1, 0, 0, "57"), ("burst", [wk, "1;0;1;0;0;44\n", "1;0;2;0;0;\n", wk]),
                     ("set", 1, 0, 0, "62"), ("burst", ["1;0;2;0;0;\n", wk, "1;0;1;0;0;62\n"]), ("line", wk)]
        runs = []
        handler_jobs = []
        shared = Interner()          # one token table for the three runs (tokens are compared across them)
        for mode in ("async", "ref", "sched"):
            drv = Driver(ver, "async" if mode == "async" else "sync", shared)
            sched_rng = random.Random(i)
            out = []
            for st in steps:
                if st[0] == "burst":
                    # several lines in one chunk: the threaded gateway queues them all before the pump runs again
                    for ln in st[1]:
                        out += drv.recv(ln, now=1700000000)["out"]
                    while mode != "async" and drv.gw.tasks.queue:
                        out += _pump_tracking(drv, handler_jobs) if mode == "sched" else drv.pump()["out"]
                    continue
                if st[0] == "line":
                    ev = drv.recv(st[1], now=1700000000)
                else:
                    while mode == "sched" and drv.gw.tasks.queue:      # controller calls read the state: compare at quiescence
                        out += _pump_tracking(drv, handler_jobs)
                    ev = drv.set_child(st[1], st[2], st[3], st[4])
                out += ev["out"]
                if mode == "ref":
                    while drv.gw.tasks.queue:
                        out += drv.pump()["out"]
                elif mode == "sched" and not burst:
                    while drv.gw.tasks.queue and sched_rng.random() < 0.5:
                        out += _pump_tracking(drv, handler_jobs)
            while mode != "async" and drv.gw.tasks.queue:
                out += _pump_tracking(drv, handler_jobs) if mode == "sched" else drv.pump()["out"]
            drv.close()
            runs.append((out, _final(drv)))
            tr = drv.trace({"mode": mode, "i": i})
            traces.append(tr)
        (oa, sa), (orf, sr), (osc, ss) = runs
        explained = 0
        if oa != osc:
            # drop every command equal to one a handler queued (their position is what the known finding is
            # about); whatever remains must be in the same order in both flavours
            moved = [m for m in handler_jobs]
            a2 = [m for m in oa if m not in moved]
            s2 = [m for m in osc if m not in moved]
            explained = 1 if a2 == s2 else 0
        E.append([oa, orf, osc, int(sa == sr), int(sa == ss), explained])
        meta.append({"version": ver, "steps": steps})
    return E, traces, meta


def _pump_tracking(drv, handler_jobs):
    """Pump once; remember the commands of jobs that a HANDLER queued (as opposed to set_child_value)."""
    q = drv.gw.tasks.queue
    is_line = bool(q) and getattr(q[0][0], "__name__", "") == "logic"
    before = len(q)
    ev = drv.pump()
    if is_line:
        new = list(drv.gw.tasks.queue)[before - 1:]
        for func, args in new:
            if getattr(func, "__name__", "") != "logic" and drv.pure_job(func):
                try:
                    handler_jobs.append(drv._cmd(func(*args)))
                except Exception:  # pylint: disable=broad-except
                    pass
    return ev["out"]


def run(tier):
    rep = common.Report(PID, tier)
    wd = common.workdir(PID)
    rng = random.Random(common.seed() + 19)
    # ---- M
    r = tlc.run("Framing", os.path.join(common.SPEC, "Framing.cfg"), workdir=os.path.join(wd, "fr"), timeout=900)
    if r.violation:
        raise tlc.MachineryError("Framing.tla self-check failed: " + r.trace_text[:2000])
    tlc.must_ok(r, "Framing")
    rep.add_tlc("Framing", r)
    model_known = 0
    for ver in (["2.2"] if tier == "quick" else ["1.5", "2.0", "2.2"]):
        lines, calls = gwfocus.sleep(ver)
        lines = lines + ["9;0;1;0;23;1\n"]
        apath = os.path.join(wd, f"alpha{ver}.json")
        gwmc.write_alphabet(apath, lines, calls, 4)
        for (name, ref, invs) in (("ref", "TRUE", ["StateAgree", "MultisetAgree", "SequenceAgree"]),
                                  ("any", "FALSE", ["StateAgree", "MultisetAgree"]),
                                  ("anyseq", "FALSE", ["SequenceAgree"])):
            cfg = os.path.join(wd, f"fl_{ver}_{name}.cfg")
            with open(cfg, "w", encoding="utf-8") as fh:
                fh.write(f'SPECIFICATION Spec\nCONSTANTS GwVer = "{ver}"\n MaxId = 4\n MaxJobs = 3\n MaxDepth = {6 if tier == "quick" else 7}\n'
                         f' Reference = {ref}\nCONSTRAINT Bound\nCHECK_DEADLOCK FALSE\n' + "".join(f"INVARIANT {x}\n" for x in invs))
            fr = tlc.run("Flavours", cfg, workdir=os.path.join(wd, f"fl_{ver}_{name}"), env={"ALPHABET_FILE": apath}, timeout=1500)
            if name == "anyseq":
                if fr.violation and "SequenceAgree" in fr.violation:
                    model_known += 1          # the known finding, reproduced on the model
                elif fr.violation is None and not fr.error:
                    pass                       # the model no longer shows it (e.g. after a repair of the spec)
                else:
                    tlc.must_ok(fr, f"Flavours {ver} {name}")
                continue
            if fr.violation:
                raise tlc.MachineryError(f"Flavours.tla {ver} {name}: {fr.violation}\n{fr.trace_text[:2000]}")
            tlc.must_ok(fr, f"Flavours {ver} {name}")
            rep.add_tlc(f"Flavours_{ver}_{name}", fr)
    rep.cov["model_counterexamples_of_known_finding"] = model_known
    # ---- B
    F = framing_records(tier, rng)
    E, traces, meta = flavour_records(tier, rng, wd)
    path = os.path.join(wd, "stream.json")
    with open(path, "w", encoding="utf-8") as fh:
        json.dump({"F": F, "E": E}, fh)
    sr = tlc.run("StreamTrace", os.path.join(common.SPEC, "StreamTrace.cfg"), workdir=os.path.join(wd, "st"), workers=2,
                 env={"TRACE_FILE": path}, timeout=1800)
    tlc.must_ok(sr, "StreamTrace")
    for i in _parse_bad(sr.out, "BADF"):
        rec = F[i - 1]
        rep.violation({"kind": "framing-depends-on-chunking", "nlines_ref": len(rec[2]), "nlines_obs": len(rec[1])}, {"record": rec})
    for i in _parse_bad(sr.out, "BADE"):
        rec = E[i - 1]
        rep.violation({"kind": "flavours-disagree", "state_ref": rec[3], "state_sched": rec[4], "seq_ref_equal": int(rec[0] == rec[1])},
                      {"meta": meta[i - 1], "async_out": rec[0], "sync_ref_out": rec[1], "sync_sched_out": rec[2]})
    for i in _parse_bad(sr.out, "BADO"):
        rec = E[i - 1]
        rep.violation({"kind": "order-differs-unexplained"}, {"meta": meta[i - 1], "async_out": rec[0], "sync_sched_out": rec[2]})
    for i in _parse_bad(sr.out, "KNOWN"):
        rec = E[i - 1]
        rep.violation({"kind": "order-depends-on-pump-schedule", "flavour": "sync", "only_handler_queued_jobs_moved": True},
                      {"meta": meta[i - 1], "async_out": rec[0], "sync_sched_out": rec[2]})
    rej, stats = gwtrace.validate(traces, PROJ, os.path.join(wd, "val"))
    rep.cov["states"] += stats["states"]
    rep.cov["transitions"] += stats["generated"]
    for rj in rej:
        ev = rj["trace"]["ev"][rj["index"] - 1]
        rep.violation({"clauses": rj["clauses"], **gwcheck.event_sig(ev), "mode": rj["trace"]["cfg"].get("mode")},
                      {"cfg": rj["trace"]["cfg"], "ops": rj["trace"]["ops"], "rejected_at_event": rj["index"]})
    rep.cov["traces_validated_against_impl"] = len(F) + len(E) + len(traces)
    rep.cov["evaluations"] = len(F) + 3 * len(E)
    for rec in F:
        rep.nontrivial(("F", tuple(rec[0]), tuple(rec[1])))
    for k, rec in enumerate(E):
        if rec[0]:
            rep.nontrivial(("E", k))
    rep.cov["rule"] = ("framing: concatenations of frame snippets (LF / CRLF, multi-byte and invalid UTF-8, garbage) and random byte strings; "
                       "every segmentation for streams <= 9 bytes, else no cut / every byte / cuts inside characters and between CR LF / random; "
                       "through data_received and through TCPTransport.run. flavours: random line sequences run on the asyncio gateway, "
                       "the threaded gateway with the reference schedule and with a random pump schedule. Non-trivial = framing record / "
                       "flavour triple with at least one emission.")
    rep.sample({"framing_record": F[len(F) // 2]})
    rep.sample({"flavour_record": next((e for e in E if e[0]), E[0])})
    rep.assumptions += ["bytes.decode('utf-8','replace') of the reference split is Python's own",
                        "the pump thread is stepped by the harness (run_job + send), schedules are sequences of such steps"]
    return rep.finish()


def replay(path):
    with open(path, encoding="utf-8") as fh:
        print(json.dumps(json.load(fh), indent=1)[:3000])
    return 0
