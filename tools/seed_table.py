#!/usr/bin/env python3
"""Markdown table of the seeded changes of one round (from seeded/*/meta.json): tools/seed_table.py r2_"""
import glob
import json
import os
import sys

tag = sys.argv[1] if len(sys.argv) > 1 else ""
rows = []
for d in sorted(glob.glob("/verif/seeded/*")):
    name = os.path.basename(d)
    is_r = "_r" in name
    if (tag and f"_{tag}" not in name) or (not tag and is_r):
        continue
    m = json.load(open(os.path.join(d, "meta.json")))
    need = " ".join((m.get("needs_to_manifest") or "").split())[:230].replace("|", "/")
    det = ", ".join(m.get("detected_by") or []) or "**missed**"
    rows.append(f"| {name} | {m['property']} | {need} | {det} | {m.get('remark', '')} |")
print("| seed | breaks | what it needs to manifest (author's note, abridged) | detected by (quick tier) | remark |")
print("|---|---|---|---|---|")
print("\n".join(rows))
