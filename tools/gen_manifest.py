#!/usr/bin/env python3
"""Regenerate MANIFEST.json from the table below (keeps it schema-valid)."""
import json, os
HERE = os.path.dirname(os.path.dirname(os.path.abspath(__file__)))
TLA = "TLA+ spec checked by TLC + trace validation of the real code against it"
CHECKS = {
 "C02": dict(level="model_checking", design="5 C02",
   text="Wire.tla is a character-level TLA+ specification of the codec (rstrip, split, int(), canonical rendering, copy). "
        "TLC checks the three codec laws of the property on it over a bounded case analysis (1..8 fields, varied field "
        "spellings, trailers, 2^6 copy subsets). The same case analysis plus random strings is concretised to real characters, "
        "run through Message decode/encode/copy, and each observed result is validated by TLC against the Wire.tla operators.",
   note="Trusts TLC and the summary of Python's int()/str.rstrip lexical rules in Wire.tla (symbol classes; each class is "
        "represented by 4-17 concrete characters, not all of Unicode). Header integers < 2^31.",
   technique="TLC model checking of Wire.tla laws + TLC validation of recorded decode/encode/copy executions (WireTrace.tla)"),
 "C03": dict(level="model_checking", design="5 C03",
   text="Valid.tla (hand-written per-version tables, header rules, payload rule semantics) is model-checked by TLC "
        "(table theorems, 307k header states, hand-labelled corpus self-test); every verdict of the implementation on the "
        "header space x boundary corpus (Message.validate, Gateway.logic dispatch, ChildSensor.validate) is recorded and "
        "validated by TLC against Accept/SchemaExpect. Bounded-exhaustive over header classes, class-representative over payload text.",
   note="Trusts TLC, the hand-written tables, harness/payload.py lexical classes (Python's own int()/float()/unhexlify). "
        "nan/inf and non major.minor[.patch] version strings are not generated.",
   technique="TLC model checking of Valid.tla + TLC validation of recorded implementation verdicts (ValidTrace.tla)"),
}

GW_NOTE = ("Trusts TLC, the projector harness/gwdrv.py (reads attributes only), the payload lexer, and the hand-written "
           "Valid.tla tables used inside the trace spec. Bounded: focus alphabets of ~15-25 concrete lines to depth 4-8; "
           "random histories of 40 steps; one concrete representative per payload class. Re-entrancy: the event callback of the harness "
           "calls update_fw (presentations) and set_child_value (SET reports) back into the gateway in a third of the histories and in the "
           "TLC behaviours (Gateway.tla React / GatewayMC WithReact); other re-entrant calls (send, stop) are not modelled.")
def gw(pid, design, text):
    return dict(level="model_checking", design=design, text=text, note=GW_NOTE,
                technique="TLC model checking of Gateway.tla (GatewayMC.tla focus runs) + replay of TLC behaviours into the real "
                          "Gateway + TLC trace validation of recorded executions (GatewayTrace.tla)")
P_NOTE = ("File-system model (Persist.tla / harness/fsshim.py): data reaches the medium only through fsync; create / rename / remove are "
          "atomic, ordered and durable (journalled metadata); no directory fsync. The shim replaces open/os as seen from "
          "mysensors.persistence; real OS crash semantics are not exercised.")
CHECKS["C12"] = dict(level="model_checking", design="5 C12",
   text="Persist.tla models the save as a process with one label per file-system operation and three copies of each file (Python buffer, OS, "
        "medium); TLC checks AtomicReplace (a load after a crash at ANY label, with or without loss of unsynced data, or after any failing "
        "operation, restores exactly the last committed snapshot) and that the next save commits the current state, over all interleavings "
        "with mutations, faults and restarts. The real save_sensors / safe_load_sensors run on a fault-injecting shim: both formats x prior "
        "on-disk configurations (incl. a complete stale temp file longer than the next save) x EVERY operation index x {fail, crash-keep, crash-lose}; "
        "operation traces and loaded states are validated by TLC. A fault-free save that shows fewer than four operations on the shim is a machinery error.",
   note=P_NOTE, technique="TLC model checking of Persist.tla + exhaustive fault-point enumeration of the real save on a shim, traces validated by TLC (PersistTrace.tla)")
CHECKS["C13"] = dict(level="model_checking", design="5 C13",
   text="LoadRes of Persist.tla is the safe-load contract (main if intact, else intact backup promoted, else empty; total). TLC checks "
        "LoadTotalAndWhole for every content-class combination; real files of both formats are truncated at every byte offset, emptied and "
        "zero-filled, crossed with absent / intact / damaged backups, loaded by fresh gateways through safe_load_sensors and start_persistence, "
        "and every (raised?, loaded state) is validated by TLC against LoadRes.",
   note="Real files in a scratch directory. Damage classes: truncation, empty, zero-fill (as the property lists); bit flips inside the file are not covered.",
   technique="TLC check of LoadRes + TLC validation of recorded loads of every truncation offset (PersistLoad.tla)")
CHECKS["C15"] = dict(level="model_checking", design="5 C15",
   text="Persist.tla includes the periodic schedule (armed / running), failing operations and mutations during serialisation that the dump "
        "notices (raises) or not. TLC checks that a failed attempt leaves the committed state loadable, keeps the dirty flag, never kills the "
        "schedule, and (weak fairness) that an unsaved state is eventually saved. The real SyncTasks timer chain and AsyncTasks save loop run on "
        "the shim with a failing operation at every index, a location that is not writable at the pre-check (action Denied: the attempt ends quietly), and an "
        "inbound message injected at every serialiser call; operation traces, dirty flag, "
        "re-arming and the post-crash load are validated by TLC.",
   note=P_NOTE + " Contention is simulated by running the message from inside the serialiser, not by a second thread.",
   technique="TLC model checking (safety + liveness) of Persist.tla + fault/contention enumeration on the real schedules, traces validated by TLC")
CHECKS["C17"] = dict(level="model_checking", design="5 C17",
   text="Mqtt.tla defines the topic <-> command mapping over level sequences (prefix compared by levels, ack <-> QoS) and the required "
        "subscription set. TLC checks RoundTrip / ForeignRejected / WrongLengthRejected over 1.28 M (prefix, header, foreign prefix) states. "
        "The real MQTTTransport.send -> pub_callback -> recv -> Gateway.logic path is executed for prefixes of 1..3 levels (empty, digit-only, "
        "nested, in != out), random headers / payloads / QoS and foreign topics; subscription sets are recorded over histories with restored "
        "persistence files, both flavours and raising callbacks. All records validated by TLC (MqttTrace.tla).",
   note="Trusts TLC and the harness' level splitting (str.split('/')). Payloads restricted to what the wire format carries.",
   technique="TLC model checking of Mqtt.tla + TLC validation of recorded publish / receive / subscribe executions")
CHECKS["C18"] = dict(level="model_checking", design="5 C18",
   text="Config.tla models the cooperative constructor chain as keyword threading (which class takes which option, defaults, observable "
        "effect) and the version floor over (major, minor). TLC enumerates every (class, subset of documented options) and checks the floor "
        "laws; every configuration is constructed for real and each effect read back (timeouts, port, baud, prefixes, retain observed "
        "through a publish, callback observed through a probe message, timeouts also with the value 0, tables observed through version-specific probe frames); every "
        "version string 0..3 x 0..12 x patch absent/0..3 plus invalid ones is given to a gateway and presented by a node. Records validated by TLC.",
   note="Constructors do not connect. 2.0 and 2.1 are behaviourally identical and form one observation class. Strings AwesomeVersion "
        "special-cases ('latest', 'v2') are outside the property's quantifier and not generated.",
   technique="TLC enumeration of Config.tla (constructor chain, version floor) + TLC validation of recorded real constructions and probes")
CHECKS["C19"] = dict(level="model_checking", design="5 C19",
   text="Framing.tla: for every byte stream <= 6 over {LF, CR, other, multi-byte} and every segmentation the lines handed out are the lines of "
        "the bytes received so far (757 k states). Flavours.tla: product of the threaded and the asyncio instance of Gateway.tla on the same "
        "line sequence - StateAgree and MultisetAgree for every pump schedule, SequenceAgree under the reference schedule; with arbitrary "
        "schedules TLC reproduces the known finding. Real data_received and TCPTransport.run (fake socket) are fed every segmentation of "
        "concrete streams (CRLF, split multi-byte characters, invalid UTF-8); real threaded and asyncio gateways run the same line sequences "
        "with reference and random pump schedules; lines, final states and ordered transport logs compared by TLC, every run validated against Gateway.tla.",
   note="The pump thread is stepped by the harness. One open known finding (emission ORDER of handler-queued jobs depends on batching in the "
        "threaded flavour) is subtracted by structural signature; any other order difference is a violation.",
   technique="TLC model checking of Framing.tla and of the product Flavours.tla + differential conformance records validated by TLC (StreamTrace.tla)")
CHECKS["C16"] = dict(level="model_checking", design="5 C16",
   text="SendRace.tla has one action per access to the shared connection reference (protocol, protocol.transport, connection open/closed) for "
        "the pump, producers, the reader thread's connection_lost (with / without error), disconnect() and the connect thread. TLC explores "
        "all interleavings: the repaired design satisfies NoExceptionIntoPump, AtMostOnce, QueueOrder, ExactlyOnceOrDropped; the pinned code "
        "(Snapshot = FALSE) yields the AttributeError. The real methods run under a deterministic line-level scheduler (sys.settrace, one "
        "baton), the poll thread being the one SyncTasks.start() creates: every schedule with <= 2 preemptions (thorough: plus random 3-preemption "
        "schedules) for nine scenarios (incl. a job that queues a further command while the pump runs it); the recorded effects "
        "are validated by TLC against SendRace.tla with the internal reads as silent steps.",
   note="Switch points are source lines of transport.py / task.py (no byte-code level races inside a line). Connections are fakes (write on a "
        "closed connection raises SerialException). The send lock is not explored (a single pump sends).",
   technique="TLC model checking of SendRace.tla + bounded-preemption schedule enumeration of the real code, traces validated by TLC (SendRaceTrace.tla)")
CHECKS["C20"] = dict(level="model_checking", design="5 C20",
   text="Link.tla models connection supervision on a discrete clock for serial/tcp x threaded/asyncio: connect loop (attempt / sleep R), "
        "per-connection made / lost counters, unrequested loss followed by an immediate reconnect, stop(), and the TCP watchdog (probe after R, "
        "drop after 2R; asyncio checks only when its R+0.1 timer fires). TLC checks MadeOncePerConnection, LostOncePerLostConnection, "
        "AtMostOneLiveLink, ReconnectAfterLoss, RetryEveryR, QuietAfterStop, AnsweredNeverDropped, SilentDroppedInTime. TLC-generated event "
        "sequences (LinkGen.tla) are played against the four real gateway classes on fake pyserial / socket / select / asyncio transports and "
        "a virtual clock (predicate-based quiescence); counts, attempt times, live connections, probes and post-stop activity after every event "
        "are validated by TLC (LinkTrace.tla). Thread interleavings of loss vs failing write are covered by the line scheduler + SendRace.tla.",
   note="Fakes implement the documented behaviour of pyserial / sockets / asyncio transports; real timing is replaced by a virtual clock. Two open "
        "known findings (asyncio: no reconnect after an orderly close by the peer; threaded: two reconnects for one loss) are subtracted by "
        "structural signature.",
   technique="TLC model checking of Link.tla + replay of TLC-generated event sequences into the real gateways, traces validated by TLC (LinkTrace.tla)")
CHECKS["C09"] = dict(level="model_checking", design="5 C09",
   text="Ota.tla states what an OTA server must serve (0xFF padding of at most one page to a multiple of 128, 16-byte blocks, "
        "little-endian words, CRC-16/MODBUS defined bit by bit). TLC checks the spec's arithmetic for every length 1..400 and then acts "
        "as the independent oracle: images written as Intel-HEX by the harness' own encoder are scheduled with update_fw and fetched "
        "through Gateway.logic by 1-3 nodes in shuffled order with repetitions; image bytes, load_fw result, every config and block "
        "response are validated by TLC (CRC recomputed in TLA+, block slices, echoed type/version/index).",
   note="Trusts TLC + CommunityModules Bitwise, harness/ihex.py (encoder) and the hex-word parser. Lengths sampled around every 16/128 "
        "boundary up to 32768 (thorough: every length to 2200); Intel-HEX dialects other than the encoder's are not covered.",
   technique="TLC model checking of Ota.tla + TLC validation of recorded OTA conversations (OtaTrace.tla, CRC in TLA+)")
CHECKS.update({
 "C06": gw("C06", "5 C06", "Id allocation is the freedom point HIdReq(ch.id) with guard id in 1..MaxId minus (known nodes and every id issued before - a history "
        "variable that survives restarts); TLC explores id requests, presentations of ids 0..5/255, ticks and stop/restart (MaxId=4) "
        "and checks IdsInRangeAndFresh and CleanMeansSaved. Real gateways share one persistence file (json and pickle alternating) over "
        "several lifetimes with a virtual timer; an id response carrying a known / earlier issued / out-of-range id makes the "
        "trace action disabled and the trace is rejected."),
 "C11": gw("C11", "5 C11", "Persisted(nodes) of Gateway.tla is the round-trip contract. At random points of real histories (smart-sleep and OTA "
        "sessions active, Unicode / JSON-special payloads, ids 0..255) the live state is saved as JSON and as pickle and loaded "
        "into fresh gateways through start_persistence(); TLC checks both loaded trees equal Persisted(nodes) of the specification "
        "state reached by validating the same trace, and that desired maps, hold queues and reboot flags are reset."),
 "C14": gw("C14", "5 C14", "Gateway.tla models the dirty flag as the code does (set by alert(), cleared by a save, save skipped when clear); TLC checks "
        "CleanMeansSaved - whenever the state is not marked unsaved the file already holds it - over every handler kind x tick "
        "position x stop. Real histories with virtual timer ticks and stop(); after every tick / stop a fresh gateway loads the file "
        "and the loaded tree must equal the specification's disk; the dirty flag must be set whenever a save would change the file. "
        "Threaded flavour here; the asyncio save loop is exercised by C15."),
 "C01": gw("C01", "5 C01", "Every inbound line is the action Logic(l) of Gateway.tla whose first guards are well-formedness (Wire.tla mirror) and "
        "Accept (Valid.tla); TLC checks NoEffectOnBad and that every reachable step is defined (incl. AcceptedImpliesDeliverable). "
        "Hostile random histories (garbage, truncated frames, malformed stream payloads, harsh set_child_value arguments, raising "
        "callbacks; serial-style and MQTT gateways) and TLC behaviours are run on the real gateway: any exception out of "
        "logic()/run_job()/transport.send, or any state/out/callback change on a rejected line, rejects the trace; a real "
        "_poll_queue thread must still answer a probe afterwards."),
 "C04": gw("C04", "5 C04", "Gateway.tla models every handler; TLC checks tree discipline, first-presentation-wins, last-writer-wins and "
        "exactly-one-callback-per-change on focus models (3 versions x 2 flavours). TLC-generated behaviours and random histories "
        "are run against the real gateway; after every step the full node/child/value tree and the callback log (taken from "
        "inside the callback, also with a raising callback) must equal the specification's successor state."),
 "C05": gw("C05", "5 C05", "Reply table of Gateway.tla (req/config/time/id/gateway-ready/presentation request/silence); TLC checks that every "
        "emitted, held or queued command is valid under Valid.tla and addressed to the requester or broadcast. In traces every "
        "string handed to transport.send is parsed by an independent reference decoder, must be canonical, must equal the "
        "specification's output sequence for that step and must re-validate under Valid.tla."),
 "C07": gw("C07", "5 C07", "Routing / hold queue / wake-up burst are explicit in Gateway.tla; TLC checks QuietWhileAsleep and BurstShape over all "
        "interleavings of the focus alphabet (2.0-2.2, both flavours, OTA stream exception). Traces compare the ordered transport "
        "log, the job queue, per-node hold queues and desired maps after every step."),
 "C08": gw("C08", "5 C08", "Wake(n) = hold queue FIFO then one set per reported+desired value type; TLC checks BurstShape, ConfirmedNeverResent and "
        "AcceptedImpliesDeliverable (desired values valid for the gateway's tables) incl. nodes presenting older / unusable versions. "
        "Traces compare burst order, desired maps, hold queues and the refusal (exception) of set_child_value."),
 "C10": gw("C10", "5 C10", "OTA session automaton (requested -> unstarted -> started) in Gateway.tla; TLC checks only-scheduled-served, config withheld "
        "after fetch started, restart by update call, malformed requests ignored, reboot until presented. Traces compare the three "
        "session stores, the reboot flags and every stream / reboot reply."),
})
NA = {}
def main():
    props = [json.loads(l)["id"] for l in open(os.path.join(HERE, "properties.jsonl"))]
    checks = []
    for pid in props:
        if pid not in CHECKS:
            continue
        c = CHECKS[pid]
        checks.append({
            "property_id": pid,
            "quick_cmd": f"./check {pid} --tier quick",
            "thorough_cmd": f"./check {pid} --tier thorough",
            "evidence_file": f"/verif/evidence/{pid}.json",
            "replay_cmd_template": f"./check {pid} --replay {{path}}",
            "engine": "tlc",
            "level_claimed": {"category": c["level"], "text": c["text"], "design_ref": c["design"]},
            "level_note": c["note"],
            "technique": c["technique"],
        })
    na = [{"property_id": p, "reason": NA.get(p, "check under construction (will be claimed once built and sound on the unchanged tree)")}
          for p in props if p not in CHECKS]
    m = {
        "version": 1,
        "setup_cmd": "true",
        "hooks": {"guard": "PYMYSENSORS_VERIF",
                  "enable": "no source hooks: observation is from outside (module-attribute patching, fakes, sys.settrace); checks export PYMYSENSORS_VERIF=1 anyway",
                  "baseline_off_cmd": "cd /repo && /venv/bin/python -m pytest -ra -q -p no:cacheprovider --timeout=900 --continue-on-collection-errors",
                  "source_commits": [], "add_only": True},
        "engines": [{"name": "tlc", "path": "/verif/spec", "serves_properties": sorted(CHECKS),
                     "kind_free_text": "explicit TLA+ specifications model-checked by TLC 1.8; traces recorded from the real library are validated against the same specifications; TLC-generated behaviours are replayed into the real objects"}],
        "checks": checks,
        "not_applicable": na,
        "notes": "Entry point ./check <id> --tier quick|thorough. Exit 0 held, 1 VIOLATION, 2 machinery failure. Known findings in known_findings.json.",
    }
    json.dump(m, open(os.path.join(HERE, "MANIFEST.json"), "w"), indent=1)
if __name__ == "__main__":
    main()
