#!/usr/bin/env python3
"""Confirm and evaluate a seeded change written by an independent sub-agent.

usage: tools/seed_eval.py <property id> <n> [extra check ids ...]
reads /tmp/seed/out/<id>/change<n>.diff, demo<n>.py, note<n>.txt; confirms (in the scratch worktree
/tmp/seed/<id>): tests pass with the change, demo fails with it and passes without; then applies the change
to /repo, runs ./check <id> (and the extra checks), reverts, and stores everything under /verif/seeded/<id>_<n>/.
"""
import json
import os
import shutil
import subprocess
import sys

PY = "/venv/bin/python"


def sh(cmd, cwd=None, env=None, timeout=1800):
    e = dict(os.environ)
    e.update(env or {})
    p = subprocess.run(cmd, shell=True, cwd=cwd, env=e, stdout=subprocess.PIPE, stderr=subprocess.STDOUT, text=True, timeout=timeout)
    return p.returncode, p.stdout


def main():
    pid, n = sys.argv[1], sys.argv[2]
    extra = sys.argv[3:]
    root = os.environ.get("SEEDROOT", "/tmp/seed")
    tag = os.environ.get("SEEDTAG", "")
    src = f"{root}/out/{pid}"
    wt = f"{root}/{pid}"
    diff, demo, note = f"{src}/change{n}.diff", f"{src}/demo{n}.py", f"{src}/note{n}.txt"
    for f in (diff, demo):
        if not os.path.exists(f):
            print("missing", f)
            return 2
    meta = {"property": pid, "variant": int(n), "round": tag or "r1", "ran": []}
    sh("git checkout -- . && git clean -fdq", cwd=wt)
    rc, out = sh(f"PYTHONPATH={wt} {PY} {demo}", cwd=wt, timeout=600)
    meta["demo_without_change"] = {"rc": rc, "tail": out[-300:]}
    rc_a, out_a = sh(f"git apply {diff}", cwd=wt)
    if rc_a != 0:
        print("diff does not apply:", out_a)
        return 2
    rc_t, out_t = sh(f"{PY} -m pytest -q -p no:cacheprovider", cwd=wt, timeout=900)
    meta["tests_with_change"] = out_t.strip().splitlines()[-1] if out_t.strip() else ""
    rc_d, out_d = sh(f"PYTHONPATH={wt} {PY} {demo}", cwd=wt, timeout=600)
    meta["demo_with_change"] = {"rc": rc_d, "tail": out_d[-400:]}
    sh("git checkout -- . && git clean -fdq", cwd=wt)
    confirmed = rc == 0 and rc_d != 0 and "730 passed" in meta["tests_with_change"]
    meta["confirmed"] = confirmed
    print("confirmed:", confirmed, "| tests:", meta["tests_with_change"], "| demo without:", rc, "with:", rc_d)
    # run our checks against it: in the scratch worktree (VERIF_REPO), so that /repo stays untouched and several
    # evaluations can run side by side (SEED_IN_REPO=1: apply to /repo itself, as the first rounds did)
    in_repo = os.environ.get("SEED_IN_REPO") == "1"
    target = "/repo" if in_repo else wt
    rc_s, out_s = sh("git diff --quiet", cwd=target)
    if rc_s != 0:
        print(target, "is dirty; aborting")
        return 2
    verdicts = {}
    try:
        rc_a, out_a = sh(f"git apply {diff}", cwd=target)
        if rc_a != 0:
            print("diff does not apply to", target, out_a)
            return 2
        for cid in [pid] + extra:
            # SEED_VERIF: a snapshot of /verif (git worktree) to run the checks from, so that /verif can be edited meanwhile
            rc_c, out_c = sh(f"./check {cid} --tier quick", cwd=os.environ.get("SEED_VERIF", "/verif"), env={"VERIF_REPO": target, "VERIF_WORK": f"{root}/work/{pid}_{n}", "VERIF_EVID": f"{root}/work/{pid}_{n}/evidence"}, timeout=3000)
            lines = [l for l in out_c.splitlines() if l.startswith(("OK", "VIOLATION", "MACHINERY", "  signature"))][:3]
            verdicts[cid] = {"rc": rc_c, "lines": lines}
            print(cid, "rc", rc_c, lines[:2])
            meta["ran"].append(f"VERIF_REPO=<worktree with the change> ./check {cid} --tier quick")
    finally:
        sh("git checkout -- . && git clean -fdq", cwd=target)
    meta["verdicts"] = verdicts
    meta["detected_by"] = [c for c, v in verdicts.items() if v["rc"] == 1]
    dst = f"/verif/seeded/{pid}_{tag}{n}"
    os.makedirs(dst, exist_ok=True)
    shutil.copy(diff, f"{dst}/patch.diff")
    shutil.copy(demo, f"{dst}/demo.py")
    if os.path.exists(note):
        with open(note, encoding="utf-8", errors="replace") as fh:
            meta["needs_to_manifest"] = fh.read()[:1500]
    with open(f"{dst}/meta.json", "w", encoding="utf-8") as fh:
        json.dump(meta, fh, indent=1)
    return 0


if __name__ == "__main__":
    sys.exit(main())
