#!/bin/bash
# run every registered quick (or thorough) check sequentially; summary at the end
tier=${1:-quick}
cd /verif
for id in $(python3 -c "import json; print(' '.join(c['property_id'] for c in json.load(open('MANIFEST.json'))['checks']))"); do
  s=$(date +%s)
  out=$(./check $id --tier $tier 2>&1); rc=$?
  e=$(date +%s)
  echo "$id rc=$rc $((e-s))s $(echo "$out" | grep -E '^(OK|VIOLATION|KNOWN-FINDING|MACHINERY)' | head -2 | cut -c1-150 | tr '\n' ' ')"
done
