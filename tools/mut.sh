#!/bin/bash
# usage: tools/mut.sh <check id> <python-snippet-that-edits /repo>   (reverts afterwards)
pid=$1; shift
cd /repo && git diff --quiet || { echo "repo dirty"; exit 9; }
python3 -c "$1" || { git -C /repo checkout -- .; exit 8; }
git -C /repo diff --stat | tail -1
(cd /repo && /venv/bin/python -m pytest -q -p no:cacheprovider -x 2>&1 | tail -1)
cd /verif && ./check $pid --tier quick 2>&1 | grep -E "^(OK|VIOLATION|KNOWN|MACHINERY|  signature)" | head -4
git -C /repo checkout -- .
